#!/bin/sh
# usage: selftest/benign.sh [diff ...]   (default: every selftest/benign/*.diff)
# applies each diff to a scratch copy of /repo and runs all quick checks against it: all must exit 0
set -e
V=$(cd "$(dirname "$0")/.." && pwd)
export GOFLAGS=-mod=mod GOPROXY=off GOSUMDB=off GOTOOLCHAIN=local
rc=0
LIST="$*"
[ -n "$LIST" ] || LIST=$(ls "$V"/selftest/benign/*.diff)
for d in $LIST; do
  S=/tmp/vbenign/$(basename "$d" .diff)
  rm -rf "$S" "$S-out"; mkdir -p "$S"
  git -C /repo archive HEAD | tar -x -C "$S"
  (cd "$S" && patch -s -p1 < "$d" && go build ./... && go test -vet=off -count=1 ./... >/dev/null) || { echo "benign patch $d does not apply/build/pass"; rc=1; continue; }
  for i in 01 02 03 04 05 06 07 08 09 10 11 12 13 14 15 16 17 18 19 20; do
    if VERIF_REPO_OVERRIDE="$S" VERIF_OUT_DIR="$S-out" "$V/check" C$i quick >"$S-out.log" 2>&1; then echo "$(basename "$d") C$i ok"; else echo "$(basename "$d") C$i ALARM"; tail -3 "$S-out.log"; rc=1; fi
  done
  rm -rf "$S" "$S-out" "$S-out.log"
done
exit $rc
