#!/usr/bin/env python3
"""Seeded-change driver: proves that the monitors fire on realistic breaking changes.

  selftest/seeded.py import <worktree-dir> <name> <property>   verify an agent-written change and store it under /verif/seeded/<name>/
  selftest/seeded.py run [--all-checks] [--tier quick] [name ...]  apply each stored change to a scratch copy of /repo (outside /repo and /verif),
                                                         check it still builds and passes the repo's own suite, run the demonstration
                                                         (must fail with / pass without), then run the property's check against the
                                                         scratch copy (VERIF_REPO_OVERRIDE) and record fired / missed in selftest/RESULTS.md

Nothing here ever edits /repo; scratch copies live under /tmp/vseed and are removed after use.
"""
import glob
import json
import os
import re
import shutil
import subprocess
import sys
import time

VERIF = os.path.dirname(os.path.dirname(os.path.abspath(__file__)))
SEEDED = os.path.join(VERIF, "seeded")
SCRATCH = "/tmp/vseed"
ENV = dict(os.environ, GOFLAGS="-mod=mod", GOPROXY="off", GOSUMDB="off", GOTOOLCHAIN="local")


def sh(cmd, cwd=None, env=None, timeout=3600):
    r = subprocess.run(cmd, cwd=cwd, env=env or ENV, stdout=subprocess.PIPE, stderr=subprocess.STDOUT, text=True, shell=isinstance(cmd, str), timeout=timeout)
    return r.returncode, r.stdout


def scratch_copy(name, rev="HEAD"):
    d = os.path.join(SCRATCH, name)
    shutil.rmtree(d, ignore_errors=True)
    os.makedirs(SCRATCH, exist_ok=True)
    # a plain copy of the working tree (tracked files at HEAD), no .git
    os.makedirs(d)
    rc, out = sh("git -C /repo archive %s | tar -x -C %s" % (rev, d))
    if rc != 0:
        raise SystemExit("cannot copy /repo: " + out)
    return d


def demo_files(sdir):
    return [f for f in glob.glob(os.path.join(sdir, "demo", "**"), recursive=True) if os.path.isfile(f)]


def verify(sdir, meta, log):
    """returns (ok, details)"""
    name = os.path.basename(sdir)
    rev = meta.get("repo_rev", "HEAD")  # a change made impossible by a later fix: commit is pinned to the tree it was written for
    base = scratch_copy(name + "-base", rev)
    mut = scratch_copy(name + "-mut", rev)
    res = {}
    try:
        rc, out = sh(["git", "apply", "--whitespace=nowarn", os.path.join(sdir, "patch.diff")], cwd=mut)
        if rc != 0:
            # not a git dir: use patch(1)
            rc, out = sh("patch -p1 < %s" % os.path.join(sdir, "patch.diff"), cwd=mut)
        res["patch_applies"] = rc == 0
        if rc != 0:
            log(out)
            return False, res
        rc, out = sh("go build ./... && go test -vet=off -count=1 ./...", cwd=mut)
        res["builds_and_passes_existing_tests"] = rc == 0
        if rc != 0:
            log(out[-3000:])
            return False, res
        # demonstration
        for d in (base, mut):
            for f in demo_files(sdir):
                rel = os.path.relpath(f, os.path.join(sdir, "demo"))
                os.makedirs(os.path.dirname(os.path.join(d, rel)), exist_ok=True)
                shutil.copyfile(f, os.path.join(d, rel))
        cmd = meta["demo_cmd"]
        rc_b, out_b = sh(cmd, cwd=base)
        rc_m, out_m = sh(cmd, cwd=mut)
        res["demo_passes_without_change"] = rc_b == 0
        res["demo_fails_with_change"] = rc_m != 0
        if rc_b != 0:
            log("demo fails WITHOUT the change:\n" + out_b[-2000:])
        if rc_m == 0:
            log("demo passes WITH the change:\n" + out_m[-2000:])
        return rc_b == 0 and rc_m != 0, res
    finally:
        shutil.rmtree(base, ignore_errors=True)


def run_checks(sdir, meta, props, tier, log):
    name = os.path.basename(sdir)
    mut = os.path.join(SCRATCH, name + "-mut")
    outdir = os.path.join(SCRATCH, name + "-out")
    shutil.rmtree(outdir, ignore_errors=True)
    # remove the demo files again: checks run against the change only
    for f in demo_files(sdir):
        rel = os.path.relpath(f, os.path.join(sdir, "demo"))
        try:
            os.remove(os.path.join(mut, rel))
        except OSError:
            pass
    fired = {}
    for p in props:
        env = dict(os.environ, VERIF_REPO_OVERRIDE=mut, VERIF_OUT_DIR=outdir)
        t0 = time.time()
        rc, out = sh([os.path.join(VERIF, "check"), p, tier], cwd=VERIF, env=env)
        viol = [l for l in out.splitlines() if l.startswith("VIOLATION")]
        classes = sorted(set(re.sub(r".*?kind=", "kind=", l)[:160] for l in viol))
        fired[p] = {"exit": rc, "violations": len(viol), "classes": classes[:6], "wall_s": round(time.time() - t0, 1)}
        log("  %s %s -> exit %d, %d VIOLATION line(s) %s" % (p, tier, rc, len(viol), classes[:2]))
    shutil.rmtree(outdir, ignore_errors=True)
    return fired


def cmd_import(wt, name, prop):
    sdir = os.path.join(SEEDED, name)
    os.makedirs(os.path.join(sdir, "demo"), exist_ok=True)
    rc, diff = sh(["git", "diff"], cwd=wt)
    if not diff.strip():
        raise SystemExit("no tracked change in " + wt)
    with open(os.path.join(sdir, "patch.diff"), "w") as f:
        f.write(diff)
    rc, unt = sh(["git", "ls-files", "--others", "--exclude-standard"], cwd=wt)
    demo_cmd = None
    for rel in unt.split():
        if rel in ("PATCH.diff", "DEMO.md"):
            continue
        os.makedirs(os.path.dirname(os.path.join(sdir, "demo", rel)) or ".", exist_ok=True)
        shutil.copyfile(os.path.join(wt, rel), os.path.join(sdir, "demo", rel))
        if rel.endswith("_test.go"):
            pkg = os.path.dirname(rel) or "."
            demo_cmd = "go test -vet=off -count=1 -run ZZDemo ./%s/" % pkg if pkg != "." else "go test -vet=off -count=1 -run ZZDemo ."
    if os.path.exists(os.path.join(wt, "DEMO.md")):
        shutil.copyfile(os.path.join(wt, "DEMO.md"), os.path.join(sdir, "DEMO.md"))
    meta = {"name": name, "property": prop, "demo_cmd": demo_cmd or "go test -vet=off -count=1 -run ZZDemo ./...",
            "origin": "written by a fresh sub-agent that was given only the property text and a scratch worktree",
            "needs_to_manifest": "see DEMO.md"}
    if os.path.exists(os.path.join(sdir, "meta.json")):
        old = json.load(open(os.path.join(sdir, "meta.json")))
        for k in ("needs_to_manifest", "demo_cmd", "race_demo"):
            if k in old:
                meta[k] = old[k]
    json.dump(meta, open(os.path.join(sdir, "meta.json"), "w"), indent=1)
    print("imported", name, "demo_cmd:", meta["demo_cmd"])


def cmd_run(names, all_checks, tier):
    lines = []

    def log(s):
        print(s, flush=True)
        lines.append(s)
    if not names:
        names = sorted(os.listdir(SEEDED))
    summary = []
    allprops = ["C%02d" % i for i in range(1, 21)]
    for name in names:
        sdir = os.path.join(SEEDED, name)
        meta = json.load(open(os.path.join(sdir, "meta.json")))
        log("== %s (breaks %s)" % (name, meta["property"]))
        ok, res = verify(sdir, meta, log)
        meta["verified"] = res
        meta["verified_ok"] = ok
        fired = {}
        if ok:
            props = allprops if all_checks else [meta["property"]] + [p for p in meta.get("also_run", []) if p != meta["property"]]
            fired = run_checks(sdir, meta, props, tier, log)
            meta.setdefault("checks_run", {})[tier] = fired
        else:
            log("  NOT a valid seeded change: %s" % res)
        meta["what_i_ran"] = "selftest/seeded.py run %s (scratch copy of /repo HEAD + patch.diff; repo suite; demo both ways; ./check <prop> %s with VERIF_REPO_OVERRIDE)" % (name, tier)
        json.dump(meta, open(os.path.join(sdir, "meta.json"), "w"), indent=1)
        shutil.rmtree(os.path.join(SCRATCH, name + "-mut"), ignore_errors=True)
        caught = [p for p, f in fired.items() if f["exit"] == 1 and f["violations"] > 0]
        summary.append((name, meta["property"], ok, caught, fired.get(meta["property"], {})))
    print("\nSUMMARY")
    for name, prop, ok, caught, f in summary:
        print("%-28s %s valid=%s caught_by=%s" % (name, prop, ok, ",".join(caught) or "-"))
    return summary


def write_results():
    rows = []
    for name in sorted(os.listdir(SEEDED)):
        mp = os.path.join(SEEDED, name, "meta.json")
        if not os.path.exists(mp):
            continue
        m = json.load(open(mp))
        runs = m.get("checks_run", {})
        caught = {}
        for tier, fired in runs.items():
            for p, f in fired.items():
                if f["exit"] == 1 and f["violations"] > 0:
                    caught.setdefault(p, []).append(tier)
        tgt = m["property"]
        rows.append("| %s | %s | %s | %s | %s |" % (name, tgt, "yes" if m.get("verified_ok") else "NO",
                                                 ", ".join("%s(%s)" % (p, "/".join(sorted(set(t)))) for p, t in sorted(caught.items())) or ("outside the property's quantifier (see meta.json)" if m.get("outside_quantifier") else "**missed**"),
                                                 (m.get("needs_to_manifest") or "").replace("\n", " ")[:160]))
    with open(os.path.join(VERIF, "selftest", "RESULTS.md"), "w") as f:
        f.write("# Seeded changes: which checks catch which change\n\n")
        f.write("Generated by `selftest/seeded.py results` from the meta.json files under /verif/seeded/.\n\n")
        f.write("| seeded change | breaks | valid (builds, suite passes, demo fails with / passes without) | caught by (tier) | needs to manifest |\n|---|---|---|---|---|\n")
        f.write("\n".join(rows) + "\n")
    print("wrote selftest/RESULTS.md (%d rows)" % len(rows))


if __name__ == "__main__":
    a = sys.argv[1:]
    if not a:
        print(__doc__)
        sys.exit(64)
    if a[0] == "import":
        cmd_import(a[1], a[2], a[3])
    elif a[0] == "run":
        names = [x for x in a[1:] if not x.startswith("--") and x not in ("quick", "thorough")]
        tier = "thorough" if "thorough" in a else "quick"
        cmd_run(names, "--all-checks" in a, tier)
        write_results()
    elif a[0] == "results":
        write_results()
