package ref

import (
	"crypto/aes"
	"crypto/md5"
	"crypto/sha1"
	"crypto/sha256"
	"fmt"
	"hash"

	"verifharness/abs"
)

// Hash ids used by the reference (not the library's identifiers).
const (
	HMD5 = iota
	HSHA1
	HSHA256
)

func newHash(h int) hash.Hash {
	switch h {
	case HMD5:
		return md5.New()
	case HSHA1:
		return sha1.New()
	}
	return sha256.New()
}

// HMAC built by hand from RFC 2104: H((K^opad) | H((K^ipad) | m)).
func HMAC(h int, key, msg []byte) []byte {
	const B = 64 // block size of MD5, SHA-1, SHA-256
	k := make([]byte, B)
	if len(key) > B {
		d := newHash(h)
		d.Write(key)
		copy(k, d.Sum(nil))
	} else {
		copy(k, key)
	}
	ip, op := make([]byte, B), make([]byte, B)
	for i := 0; i < B; i++ {
		ip[i] = k[i] ^ 0x36
		op[i] = k[i] ^ 0x5c
	}
	in := newHash(h)
	in.Write(ip)
	in.Write(msg)
	out := newHash(h)
	out.Write(op)
	out.Write(in.Sum(nil))
	return out.Sum(nil)
}

// PrfPlus per RFC 7296 section 2.13.
func PrfPlus(h int, key, seed []byte, n int) []byte {
	var out, t []byte
	for i := 1; len(out) < n; i++ {
		in := append(append(append([]byte{}, t...), seed...), byte(i))
		t = HMAC(h, key, in)
		out = append(out, t...)
	}
	return out[:n]
}

// PrfPrime per RFC 5448 section 3.4.1 (HMAC-SHA-256).
func PrfPrime(key, s []byte, n int) []byte {
	return PrfPlus(HSHA256, key, s, n)
}

// CBCEncrypt / CBCDecrypt: textbook chaining over the bare AES block (NIST SP 800-38A).
func CBCEncrypt(key, iv, pt []byte) ([]byte, error) {
	blk, err := aes.NewCipher(key)
	if err != nil {
		return nil, err
	}
	if len(pt)%16 != 0 || len(iv) != 16 {
		return nil, fmt.Errorf("ref cbc: bad sizes")
	}
	out := make([]byte, len(pt))
	prev := iv
	for i := 0; i < len(pt); i += 16 {
		var x [16]byte
		for j := 0; j < 16; j++ {
			x[j] = pt[i+j] ^ prev[j]
		}
		blk.Encrypt(out[i:i+16], x[:])
		prev = out[i : i+16]
	}
	return out, nil
}

func CBCDecrypt(key, iv, ct []byte) ([]byte, error) {
	blk, err := aes.NewCipher(key)
	if err != nil {
		return nil, err
	}
	if len(ct)%16 != 0 || len(iv) != 16 {
		return nil, fmt.Errorf("ref cbc: bad sizes")
	}
	out := make([]byte, len(ct))
	prev := iv
	for i := 0; i < len(ct); i += 16 {
		var x [16]byte
		blk.Decrypt(x[:], ct[i:i+16])
		for j := 0; j < 16; j++ {
			out[i+j] = x[j] ^ prev[j]
		}
		prev = ct[i : i+16]
	}
	return out, nil
}

// Suite is one of the 9 negotiable IKE protection suites (RFC 7296 / RFC 4868 / RFC 3602 tables).
type Suite struct {
	EncKeyLen int // 16 / 24 / 32
	Integ     int // HMD5 / HSHA1 / HSHA256
}

func (s Suite) IntegKeyLen() int { return []int{16, 20, 32}[s.Integ] }
func (s Suite) ICVLen() int      { return []int{12, 12, 16}[s.Integ] }
func (s Suite) Name() string {
	return fmt.Sprintf("AES-CBC-%d/%s", s.EncKeyLen*8, []string{"HMAC-MD5-96", "HMAC-SHA1-96", "HMAC-SHA2-256-128"}[s.Integ])
}

var Suites = func() []Suite {
	var l []Suite
	for _, k := range []int{16, 24, 32} {
		for _, i := range []int{HMD5, HSHA1, HSHA256} {
			l = append(l, Suite{k, i})
		}
	}
	return l
}()

// DirKeys are the keys of ONE direction (the sender's).
type DirKeys struct{ Ke, Ka []byte }

// Protect builds an RFC 7296 section 3.14 protected message from the abstract
// message: header | SK{IV | CBC(inner | pad | padlen) | ICV}.  pad are the pad
// octets (any content), len(pad) must make the plaintext a block multiple.
func Protect(m *abs.Msg, s Suite, k DirKeys, iv, pad []byte, o *Opts) ([]byte, error) {
	inner, first, err := EncodeChain(m.Payloads, o)
	if err != nil {
		return nil, err
	}
	return ProtectRaw(m, first, inner, s, k, iv, pad, o)
}

func ProtectRaw(m *abs.Msg, first uint8, inner []byte, s Suite, k DirKeys, iv, pad []byte, o *Opts) ([]byte, error) {
	return ProtectOuter(m, first, inner, s, k, iv, pad, o, nil)
}

// ProtectOuter is ProtectRaw with additional cleartext payloads in FRONT of the SK payload in the outer chain
// (e.g. payloads of types the receiver does not implement); they are covered by the checksum like everything
// before it.
func ProtectOuter(m *abs.Msg, first uint8, inner []byte, s Suite, k DirKeys, iv, pad []byte, o *Opts, outer []abs.Payload) ([]byte, error) {
	if len(pad) > 255 || (len(inner)+len(pad)+1)%16 != 0 {
		return nil, fmt.Errorf("ref protect: pad length %d does not align %d octets", len(pad), len(inner))
	}
	pt := append(append(append([]byte{}, inner...), pad...), byte(len(pad)))
	ct, err := CBCEncrypt(k.Ke, iv, pt)
	if err != nil {
		return nil, err
	}
	skLen := 4 + 16 + len(ct) + s.ICVLen()
	if skLen > 0xffff {
		return nil, ErrTooLong
	}
	w := &wbuf{}
	var pre []byte
	hdrFirst := uint8(abs.PSK)
	if len(outer) > 0 {
		// chain: outer[0] -> outer[1] -> ... -> SK
		for i, p := range outer {
			body, err := EncodeBody(p, o)
			if err != nil || len(body)+4 > 0xffff {
				return nil, ErrTooLong
			}
			next := uint8(abs.PSK)
			if i+1 < len(outer) {
				next = outer[i+1].Kind
			}
			fl := o.noise() & 0x7f
			if p.Crit {
				fl |= 0x80
			}
			pre = append(pre, next, fl, byte((len(body)+4)>>8), byte(len(body)+4))
			pre = append(pre, body...)
		}
		hdrFirst = outer[0].Kind
	}
	w.raw(EncodeHeader(m, hdrFirst, 28+len(pre)+skLen))
	w.raw(pre)
	w.u8(first)
	w.u8(o.noise() & 0x7f)
	w.u16(uint16(skLen))
	w.raw(iv)
	w.raw(ct)
	mac := HMAC(s.Integ, k.Ka, w.b)
	w.raw(mac[:s.ICVLen()])
	return w.b, nil
}

// AssembleProtected builds header | SK{IV | ct | ICV} around a ciphertext the caller made itself (e.g. one whose
// padding blocks were chosen so that IV|ct has a wanted checksum).
func AssembleProtected(m *abs.Msg, first uint8, iv, ct []byte, s Suite, ka []byte) []byte {
	skLen := 4 + len(iv) + len(ct) + s.ICVLen()
	w := &wbuf{}
	w.raw(EncodeHeader(m, abs.PSK, 28+skLen))
	w.u8(first)
	w.u8(0)
	w.u16(uint16(skLen))
	w.raw(iv)
	w.raw(ct)
	mac := HMAC(s.Integ, ka, w.b)
	w.raw(mac[:s.ICVLen()])
	return w.b
}

// Unprotect verifies, decrypts and strictly parses a protected message the
// way an independent peer holding the sender-direction keys would.  It
// returns the message, the pad octets and the IV.
func Unprotect(b []byte, s Suite, k DirKeys) (*abs.Msg, []byte, []byte, error) {
	if len(b) < 28+4 {
		return nil, nil, nil, fmt.Errorf("ref unprotect: too short")
	}
	r := &rbuf{b: b}
	m := &abs.Msg{}
	m.ISPI, m.RSPI = r.u64(), r.u64()
	first := r.u8()
	v := r.u8()
	m.Major, m.Minor = v>>4, v&0x0f
	m.Exch, m.Flags, m.MsgID = r.u8(), r.u8(), r.u32()
	if l := r.u32(); int(l) != len(b) {
		return nil, nil, nil, fmt.Errorf("ref unprotect: header length %d != datagram size %d", l, len(b))
	}
	if first != abs.PSK {
		return nil, nil, nil, fmt.Errorf("ref unprotect: first payload %d is not SK", first)
	}
	innerFirst := r.u8()
	if fl := r.u8(); fl != 0 {
		return nil, nil, nil, fmt.Errorf("ref unprotect: SK flags/reserved %#x", fl)
	}
	if l := int(r.u16()); l != len(b)-28 {
		return nil, nil, nil, fmt.Errorf("ref unprotect: SK length %d does not reach the end (%d)", l, len(b)-28)
	}
	icv := s.ICVLen()
	if len(r.b) < 16+16+icv {
		return nil, nil, nil, fmt.Errorf("ref unprotect: SK body of %d octets too short", len(r.b))
	}
	mac := HMAC(s.Integ, k.Ka, b[:len(b)-icv])
	for i := 0; i < icv; i++ {
		if mac[i] != b[len(b)-icv+i] {
			return nil, nil, nil, fmt.Errorf("ref unprotect: checksum mismatch")
		}
	}
	iv := r.take(16)
	ct := r.b[:len(r.b)-icv]
	pt, err := CBCDecrypt(k.Ke, iv, ct)
	if err != nil {
		return nil, nil, nil, fmt.Errorf("ref unprotect: %v", err)
	}
	pl := int(pt[len(pt)-1])
	if pl+1 > len(pt) {
		return nil, nil, nil, fmt.Errorf("ref unprotect: pad length %d exceeds plaintext %d", pl, len(pt))
	}
	inner := pt[:len(pt)-pl-1]
	pad := pt[len(pt)-pl-1 : len(pt)-1]
	ps, err := ParseChain(innerFirst, inner, true)
	if err != nil {
		return nil, nil, nil, err
	}
	m.Payloads = ps
	return m, dup(pad), dup(iv), nil
}

// IKEKeys is the reference derivation of RFC 7296 section 2.14.
type IKEKeys struct{ D, Ai, Ar, Ei, Er, Pi, Pr []byte }

func PrfKeyLen(prf int) int { return []int{16, 20, 32}[prf] }

func DeriveIKE(prf int, s Suite, nonces, shared []byte, spii, spir uint64) IKEKeys {
	skeyseed := HMAC(prf, nonces, shared)
	w := &wbuf{}
	w.raw(nonces)
	w.u64(spii)
	w.u64(spir)
	pl, al, el := PrfKeyLen(prf), s.IntegKeyLen(), s.EncKeyLen
	ks := PrfPlus(prf, skeyseed, w.b, 3*pl+2*al+2*el)
	cut := func(n int) []byte { v := ks[:n]; ks = ks[n:]; return v }
	var k IKEKeys
	k.D, k.Ai, k.Ar, k.Ei, k.Er, k.Pi, k.Pr = cut(pl), cut(al), cut(al), cut(el), cut(el), cut(pl), cut(pl)
	return k
}

// DeriveChild is RFC 7296 section 2.17: KEYMAT = prf+(SK_d, Ni | Nr), taken in
// the order e_i2r, a_i2r, e_r2i, a_r2i.
func DeriveChild(prf int, skd, nonces []byte, encLen, integLen int) (ei, ai, er, ar []byte) {
	ks := PrfPlus(prf, skd, nonces, 2*(encLen+integLen))
	cut := func(n int) []byte { v := ks[:n]; ks = ks[n:]; return v }
	return cut(encLen), cut(integLen), cut(encLen), cut(integLen)
}
