// Package ref holds the independent reference implementations used as oracles:
// an RFC 7296 / RFC 3748 / RFC 4187 / RFC 5448 codec written from the RFC text
// (this file), hand-built HMAC / CBC / prf+ / PRF' (crypto.go) and MODP
// arithmetic with primes recomputed from their defining formulas (dh.go).
// Nothing here imports free5gc/ike.
package ref

import (
	"errors"
	"fmt"

	"verifharness/abs"
)

// Opts are the liberties RFC 7296 grants a sender.  The zero value is the
// canonical encoder: reserved fields zero, critical flags clear.
type Opts struct {
	// Noise, when non-nil, supplies the content of every reserved bit/octet
	// ("MUST be ignored on receipt").
	Noise func() byte
	// CritKnown sets the critical flag on payload types the receiver implements
	// (RFC 7296 3.2: MUST be ignored by a receiver that understands the type).
	CritKnown func() bool
	// AKAOrder, when true, keeps EAP-AKA' attributes in the order listed in
	// the abstract value instead of sorting them by type.
	AKAOrder bool
	// AKAPad / AKAReserved supply non-zero padding and reserved octets in AKA' attributes.
	AKANoise func() byte
}

func (o *Opts) noise() byte {
	if o == nil || o.Noise == nil {
		return 0
	}
	return o.Noise()
}
func (o *Opts) akaNoise() byte {
	if o == nil || o.AKANoise == nil {
		return 0
	}
	return o.AKANoise()
}

type wbuf struct{ b []byte }

func (w *wbuf) u8(v uint8)   { w.b = append(w.b, v) }
func (w *wbuf) u16(v uint16) { w.b = append(w.b, byte(v>>8), byte(v)) }
func (w *wbuf) u32(v uint32) { w.b = append(w.b, byte(v>>24), byte(v>>16), byte(v>>8), byte(v)) }
func (w *wbuf) u64(v uint64) { w.u32(uint32(v >> 32)); w.u32(uint32(v)) }
func (w *wbuf) raw(v []byte) { w.b = append(w.b, v...) }

var ErrTooLong = errors.New("ref: field does not fit its length field")

func IsKnownPayload(k uint8) bool { return k >= 33 && k <= 48 }

// EncodeMsg encodes header + payload chain.
func EncodeMsg(m *abs.Msg, o *Opts) ([]byte, error) {
	body, first, err := EncodeChain(m.Payloads, o)
	if err != nil {
		return nil, err
	}
	return append(EncodeHeader(m, first, 28+len(body)), body...), nil
}

func EncodeHeader(m *abs.Msg, first uint8, total int) []byte {
	w := &wbuf{}
	w.u64(m.ISPI)
	w.u64(m.RSPI)
	w.u8(first)
	w.u8(m.Major<<4 | m.Minor&0x0f)
	w.u8(m.Exch)
	w.u8(m.Flags)
	w.u32(m.MsgID)
	w.u32(uint32(total))
	return w.b
}

// EncodeChain encodes a payload list; returns the bytes and the type of the first payload (0 if none).
func EncodeChain(ps []abs.Payload, o *Opts) ([]byte, uint8, error) {
	w := &wbuf{}
	for i, p := range ps {
		body, err := EncodeBody(p, o)
		if err != nil {
			return nil, 0, err
		}
		if len(body)+4 > 0xffff {
			return nil, 0, ErrTooLong
		}
		next := uint8(0)
		if i+1 < len(ps) {
			next = ps[i+1].Kind
		} else if p.Kind == abs.PSK && p.SK != nil {
			next = p.SK.Next
		}
		w.u8(next)
		fl := uint8(0)
		if IsKnownPayload(p.Kind) {
			fl = o.noise() & 0x7f
			if o != nil && o.CritKnown != nil && o.CritKnown() {
				fl |= 0x80
			}
		} else {
			fl = o.noise() & 0x7f
			if p.Crit {
				fl |= 0x80
			}
		}
		w.u8(fl)
		w.u16(uint16(len(body) + 4))
		w.raw(body)
	}
	first := uint8(0)
	if len(ps) > 0 {
		first = ps[0].Kind
	}
	return w.b, first, nil
}

func EncodeBody(p abs.Payload, o *Opts) ([]byte, error) {
	w := &wbuf{}
	switch p.Kind {
	case abs.PSA:
		for i, pr := range p.SA.Proposals {
			pw := &wbuf{}
			for j, t := range pr.Transforms {
				tw := &wbuf{}
				tw.u8(t.Type)
				tw.u8(o.noise())
				tw.u16(t.ID)
				if t.HasAttr {
					if t.AttrType > 0x7fff {
						return nil, ErrTooLong
					}
					if t.TV {
						tw.u16(0x8000 | t.AttrType)
						tw.u16(t.AttrVal)
					} else {
						if len(t.AttrBytes) > 0xffff {
							return nil, ErrTooLong
						}
						tw.u16(t.AttrType)
						tw.u16(uint16(len(t.AttrBytes)))
						tw.raw(t.AttrBytes)
					}
				}
				if len(tw.b)+4 > 0xffff {
					return nil, ErrTooLong
				}
				if j+1 < len(pr.Transforms) {
					pw.u8(3)
				} else {
					pw.u8(0)
				}
				pw.u8(o.noise())
				pw.u16(uint16(len(tw.b) + 4))
				pw.raw(tw.b)
			}
			if len(pr.SPI) > 255 || len(pr.Transforms) > 255 {
				return nil, ErrTooLong
			}
			total := 8 + len(pr.SPI) + len(pw.b)
			if total > 0xffff {
				return nil, ErrTooLong
			}
			if i+1 < len(p.SA.Proposals) {
				w.u8(2)
			} else {
				w.u8(0)
			}
			w.u8(o.noise())
			w.u16(uint16(total))
			w.u8(pr.Num)
			w.u8(pr.Proto)
			w.u8(uint8(len(pr.SPI)))
			w.u8(uint8(len(pr.Transforms)))
			w.raw(pr.SPI)
			w.raw(pw.b)
		}
	case abs.PKE:
		w.u16(p.KE.Group)
		w.u8(o.noise())
		w.u8(o.noise())
		w.raw(p.KE.Data)
	case abs.PIDi, abs.PIDr:
		w.u8(p.ID.Type)
		w.u8(o.noise())
		w.u8(o.noise())
		w.u8(o.noise())
		w.raw(p.ID.Data)
	case abs.PCERT, abs.PCERTREQ:
		w.u8(p.Cert.Enc)
		w.raw(p.Cert.Data)
	case abs.PAUTH:
		w.u8(p.Auth.Method)
		w.u8(o.noise())
		w.u8(o.noise())
		w.u8(o.noise())
		w.raw(p.Auth.Data)
	case abs.PNonce, abs.PVendor:
		w.raw(p.Data)
	case abs.PNotify:
		if len(p.Notify.SPI) > 255 {
			return nil, ErrTooLong
		}
		w.u8(p.Notify.Proto)
		w.u8(uint8(len(p.Notify.SPI)))
		w.u16(p.Notify.Type)
		w.raw(p.Notify.SPI)
		w.raw(p.Notify.Data)
	case abs.PDelete:
		w.u8(p.Delete.Proto)
		w.u8(p.Delete.SPISize)
		w.u16(p.Delete.Num)
		for _, s := range p.Delete.SPIs {
			w.u32(s)
		}
	case abs.PTSi, abs.PTSr:
		if len(p.TS.Sel) > 255 {
			return nil, ErrTooLong
		}
		w.u8(uint8(len(p.TS.Sel)))
		w.u8(o.noise())
		w.u8(o.noise())
		w.u8(o.noise())
		for _, s := range p.TS.Sel {
			w.u8(s.Type)
			w.u8(s.Proto)
			w.u16(uint16(8 + len(s.StartAddr) + len(s.EndAddr)))
			w.u16(s.StartPort)
			w.u16(s.EndPort)
			w.raw(s.StartAddr)
			w.raw(s.EndAddr)
		}
	case abs.PCP:
		w.u8(p.CP.Type)
		w.u8(o.noise())
		w.u8(o.noise())
		w.u8(o.noise())
		for _, a := range p.CP.Attrs {
			if a.Type > 0x7fff || len(a.Value) > 0xffff {
				return nil, ErrTooLong
			}
			w.u16(a.Type | uint16(o.noise()&1)<<15)
			w.u16(uint16(len(a.Value)))
			w.raw(a.Value)
		}
	case abs.PEAP:
		b, err := EncodeEAP(p.EAP, o)
		if err != nil {
			return nil, err
		}
		w.raw(b)
	case abs.PSK:
		w.raw(p.SK.Data)
	default:
		w.raw(p.Data)
	}
	return w.b, nil
}

func EncodeEAP(e *abs.EAP, o *Opts) ([]byte, error) {
	w := &wbuf{}
	w.u8(e.Code)
	w.u8(e.ID)
	w.u16(0)
	if m := e.Method; m != nil {
		w.u8(m.Type)
		switch m.Type {
		case abs.MExpanded:
			if m.VendorID > 0xffffff {
				return nil, ErrTooLong
			}
			w.u8(uint8(m.VendorID >> 16))
			w.u16(uint16(m.VendorID))
			w.u32(m.VendorType)
			w.raw(m.VendorData)
		case abs.MAkaPrime:
			w.u8(m.AKA.Subtype)
			w.u16(0)
			attrs := m.AKA.Attrs
			if o == nil || !o.AKAOrder {
				c := (&abs.EAP{Method: &abs.Method{Type: abs.MAkaPrime, AKA: m.AKA}}).Canon()
				attrs = c.Method.AKA.Attrs
			}
			for _, a := range attrs {
				b, err := EncodeAKAAttr(a, o)
				if err != nil {
					return nil, err
				}
				w.raw(b)
			}
		default:
			w.raw(m.Data)
		}
	}
	if len(w.b) > 0xffff {
		return nil, ErrTooLong
	}
	w.b[2], w.b[3] = byte(len(w.b)>>8), byte(len(w.b))
	return w.b, nil
}

func EncodeAKAAttr(a abs.AKAAttr, o *Opts) ([]byte, error) {
	w := &wbuf{}
	w.u8(a.Type)
	n := len(a.Value)
	switch a.Type {
	case abs.ATRand, abs.ATAutn, abs.ATMac:
		if n != 16 {
			return nil, fmt.Errorf("ref: AKA attr %d needs 16 octets", a.Type)
		}
		w.u8(5)
		w.u8(o.akaNoise())
		w.u8(o.akaNoise())
		w.raw(a.Value)
	case abs.ATRes, abs.ATKdfInput:
		words := (4 + n + 3) / 4
		if words > 255 || n*8 > 0xffff {
			return nil, ErrTooLong
		}
		w.u8(uint8(words))
		w.u16(uint16(n * 8))
		w.raw(a.Value)
		for len(w.b) < words*4 {
			w.u8(o.akaNoise())
		}
	case abs.ATKdf:
		if n != 2 {
			return nil, fmt.Errorf("ref: AT_KDF needs 2 octets")
		}
		w.u8(1)
		w.raw(a.Value)
	default: // AT_CHECKCODE and generic "reserved + value" attributes
		if n%4 != 0 || (4+n)/4 > 255 {
			return nil, ErrTooLong
		}
		w.u8(uint8((4 + n) / 4))
		w.u8(o.akaNoise())
		w.u8(o.akaNoise())
		w.raw(a.Value)
	}
	return w.b, nil
}

// ---------------------------------------------------------------------------
// strict parser

type rbuf struct {
	b   []byte
	err error
}

func (r *rbuf) fail(f string, a ...interface{}) {
	if r.err == nil {
		r.err = fmt.Errorf("ref parse: "+f, a...)
	}
}
func (r *rbuf) take(n int) []byte {
	if r.err != nil {
		return make([]byte, n)
	}
	if n < 0 || len(r.b) < n {
		r.fail("need %d octets, have %d", n, len(r.b))
		return make([]byte, n)
	}
	v := r.b[:n]
	r.b = r.b[n:]
	return v
}
func (r *rbuf) u8() uint8   { return r.take(1)[0] }
func (r *rbuf) u16() uint16 { v := r.take(2); return uint16(v[0])<<8 | uint16(v[1]) }
func (r *rbuf) u32() uint32 { v := r.take(4); return uint32(v[0])<<24 | uint32(v[1])<<16 | uint32(v[2])<<8 | uint32(v[3]) }
func (r *rbuf) u64() uint64 { return uint64(r.u32())<<32 | uint64(r.u32()) }
func (r *rbuf) zero(n int, what string) {
	for _, x := range r.take(n) {
		if x != 0 {
			r.fail("%s: reserved octet is %#x, not zero", what, x)
		}
	}
}
func dup(b []byte) abs.HB { o := make(abs.HB, len(b)); copy(o, b); return o }

// ParseMsg is the strict parser: every length must equal its real extent, the
// chain must end with 0, markers and counts must be right, reserved fields
// and critical flags must be zero, only implemented payload types may occur.
func ParseMsg(b []byte) (*abs.Msg, error) {
	if len(b) < 28 {
		return nil, fmt.Errorf("ref parse: datagram shorter than a header")
	}
	r := &rbuf{b: b}
	m := &abs.Msg{}
	m.ISPI, m.RSPI = r.u64(), r.u64()
	first := r.u8()
	v := r.u8()
	m.Major, m.Minor = v>>4, v&0x0f
	m.Exch, m.Flags, m.MsgID = r.u8(), r.u8(), r.u32()
	if l := r.u32(); int(l) != len(b) {
		return nil, fmt.Errorf("ref parse: header length %d != datagram size %d", l, len(b))
	}
	ps, err := ParseChain(first, r.b, true)
	if err != nil {
		return nil, err
	}
	m.Payloads = ps
	return m, nil
}

// ParseChain parses a payload chain.  With strict set, reserved bits and
// critical flags must be zero.
func ParseChain(first uint8, b []byte, strict bool) ([]abs.Payload, error) {
	var out []abs.Payload
	next := first
	for len(b) > 0 {
		if next == 0 {
			return nil, fmt.Errorf("ref parse: %d octets after the payload whose next-payload is 0", len(b))
		}
		if len(b) < 4 {
			return nil, fmt.Errorf("ref parse: truncated generic header")
		}
		l := int(b[2])<<8 | int(b[3])
		if l < 4 || l > len(b) {
			return nil, fmt.Errorf("ref parse: payload length %d outside 4..%d", l, len(b))
		}
		if strict && b[1] != 0 {
			return nil, fmt.Errorf("ref parse: payload type %d flags/reserved octet %#x not zero", next, b[1])
		}
		if !IsKnownPayload(next) {
			return nil, fmt.Errorf("ref parse: payload type %d not implemented", next)
		}
		p, err := ParseBody(next, b[4:l], strict)
		if err != nil {
			return nil, err
		}
		if next == abs.PSK {
			p.SK.Next = b[0]
			if l != len(b) {
				return nil, fmt.Errorf("ref parse: SK payload is not the last payload")
			}
			out = append(out, p)
			return out, nil
		}
		out = append(out, p)
		next = b[0]
		b = b[l:]
	}
	if next != 0 {
		return nil, fmt.Errorf("ref parse: chain ends but last next-payload is %d", next)
	}
	return out, nil
}

func ParseBody(kind uint8, b []byte, strict bool) (abs.Payload, error) {
	r := &rbuf{b: b}
	p := abs.Payload{Kind: kind}
	rz := func(n int, what string) {
		if strict {
			r.zero(n, what)
		} else {
			r.take(n)
		}
	}
	switch kind {
	case abs.PSA:
		sa := &abs.SA{}
		if len(r.b) == 0 {
			r.fail("SA without proposals")
		}
		for len(r.b) > 0 && r.err == nil {
			last := r.u8()
			rz(1, "proposal")
			l := int(r.u16())
			if l < 8 || l-4 > len(r.b) {
				r.fail("proposal length %d", l)
				break
			}
			pr := &rbuf{b: r.take(l - 4)}
			ap := abs.Proposal{Num: pr.u8(), Proto: pr.u8()}
			spi := int(pr.u8())
			nt := int(pr.u8())
			ap.SPI = dup(pr.take(spi))
			for len(pr.b) > 0 && pr.err == nil {
				tl := pr.u8()
				if strict {
					pr.zero(1, "transform")
				} else {
					pr.take(1)
				}
				ll := int(pr.u16())
				if ll < 8 || ll-4 > len(pr.b) {
					pr.fail("transform length %d", ll)
					break
				}
				tr := &rbuf{b: pr.take(ll - 4)}
				t := abs.Transform{Type: tr.u8()}
				if strict {
					tr.zero(1, "transform")
				} else {
					tr.take(1)
				}
				t.ID = tr.u16()
				if len(tr.b) > 0 {
					t.HasAttr = true
					ft := tr.u16()
					t.AttrType = ft & 0x7fff
					if ft&0x8000 != 0 {
						t.TV = true
						t.AttrVal = tr.u16()
					} else {
						al := int(tr.u16())
						t.AttrBytes = dup(tr.take(al))
					}
					if len(tr.b) != 0 {
						tr.fail("more than one attribute or trailing octets in transform")
					}
				}
				if tr.err != nil {
					return p, tr.err
				}
				more := len(pr.b) > 0
				if (more && tl != 3) || (!more && tl != 0) {
					pr.fail("transform 'last substructure' marker %d (more=%v)", tl, more)
				}
				ap.Transforms = append(ap.Transforms, t)
			}
			if pr.err != nil {
				return p, pr.err
			}
			if len(ap.Transforms) != nt {
				r.fail("proposal announces %d transforms, carries %d", nt, len(ap.Transforms))
			}
			more := len(r.b) > 0
			if (more && last != 2) || (!more && last != 0) {
				r.fail("proposal 'last substructure' marker %d (more=%v)", last, more)
			}
			sa.Proposals = append(sa.Proposals, ap)
		}
		p.SA = sa
	case abs.PKE:
		g := r.u16()
		rz(2, "KE")
		p.KE = &abs.KE{Group: g, Data: dup(r.take(len(r.b)))}
	case abs.PIDi, abs.PIDr:
		t := r.u8()
		rz(3, "ID")
		p.ID = &abs.ID{Type: t, Data: dup(r.take(len(r.b)))}
	case abs.PCERT, abs.PCERTREQ:
		e := r.u8()
		p.Cert = &abs.Cert{Enc: e, Data: dup(r.take(len(r.b)))}
	case abs.PAUTH:
		m := r.u8()
		rz(3, "AUTH")
		p.Auth = &abs.Auth{Method: m, Data: dup(r.take(len(r.b)))}
	case abs.PNonce, abs.PVendor:
		p.Data = dup(r.take(len(r.b)))
	case abs.PNotify:
		n := &abs.Notify{Proto: r.u8()}
		ss := int(r.u8())
		n.Type = r.u16()
		n.SPI = dup(r.take(ss))
		n.Data = dup(r.take(len(r.b)))
		p.Notify = n
	case abs.PDelete:
		d := &abs.Delete{Proto: r.u8(), SPISize: r.u8(), Num: r.u16()}
		if int(d.SPISize)*int(d.Num) != len(r.b) {
			r.fail("Delete: %d SPIs of %d octets but %d octets follow", d.Num, d.SPISize, len(r.b))
		} else if d.SPISize == 4 {
			for len(r.b) > 0 {
				d.SPIs = append(d.SPIs, r.u32())
			}
		} else if d.SPISize != 0 && d.Num != 0 {
			r.fail("Delete: SPI size %d not representable", d.SPISize)
		}
		p.Delete = d
	case abs.PTSi, abs.PTSr:
		ts := &abs.TS{}
		n := int(r.u8())
		rz(3, "TS")
		for len(r.b) > 0 && r.err == nil {
			s := abs.Selector{Type: r.u8(), Proto: r.u8()}
			l := int(r.u16())
			s.StartPort, s.EndPort = r.u16(), r.u16()
			al := 0
			switch s.Type {
			case 7:
				al = 4
			case 8:
				al = 16
			default:
				r.fail("TS type %d", s.Type)
			}
			if l != 8+2*al {
				r.fail("selector length %d for type %d", l, s.Type)
			}
			s.StartAddr, s.EndAddr = dup(r.take(al)), dup(r.take(al))
			ts.Sel = append(ts.Sel, s)
		}
		if len(ts.Sel) != n {
			r.fail("TS announces %d selectors, carries %d", n, len(ts.Sel))
		}
		p.TS = ts
	case abs.PCP:
		c := &abs.CP{Type: r.u8()}
		rz(3, "CP")
		for len(r.b) > 0 && r.err == nil {
			t := r.u16()
			if strict && t&0x8000 != 0 {
				r.fail("CP attribute reserved bit set")
			}
			l := int(r.u16())
			c.Attrs = append(c.Attrs, abs.CPAttr{Type: t & 0x7fff, Value: dup(r.take(l))})
		}
		p.CP = c
	case abs.PEAP:
		e, err := ParseEAP(r.take(len(r.b)), strict)
		if err != nil {
			return p, err
		}
		p.EAP = e
	case abs.PSK:
		p.SK = &abs.SK{Data: dup(r.take(len(r.b)))}
	default:
		p.Data = dup(r.take(len(r.b)))
	}
	if r.err != nil {
		return p, r.err
	}
	if len(r.b) != 0 {
		return p, fmt.Errorf("ref parse: %d trailing octets in payload %d", len(r.b), kind)
	}
	return p, nil
}

// ParseEAP is the strict RFC 3748 / 4187 / 5448 parser.
func ParseEAP(b []byte, strict bool) (*abs.EAP, error) {
	r := &rbuf{b: b}
	e := &abs.EAP{Code: r.u8(), ID: r.u8()}
	if l := int(r.u16()); l != len(b) {
		r.fail("EAP length %d != packet size %d", l, len(b))
	}
	if r.err != nil {
		return nil, r.err
	}
	if len(r.b) == 0 {
		return e, nil
	}
	if strict && (e.Code == 3 || e.Code == 4) {
		return nil, fmt.Errorf("ref parse: EAP Success/Failure carries %d data octets", len(r.b))
	}
	m := &abs.Method{Type: r.u8()}
	switch m.Type {
	case abs.MExpanded:
		v := r.take(3)
		m.VendorID = uint32(v[0])<<16 | uint32(v[1])<<8 | uint32(v[2])
		m.VendorType = r.u32()
		m.VendorData = dup(r.take(len(r.b)))
	case abs.MAkaPrime:
		a := &abs.AKA{Subtype: r.u8()}
		if strict {
			r.zero(2, "AKA' header")
		} else {
			r.take(2)
		}
		for len(r.b) > 0 && r.err == nil {
			t := r.u8()
			words := int(r.u8())
			if words < 1 {
				r.fail("AKA' attribute %d has length 0", t)
				break
			}
			ar := &rbuf{b: r.take(words*4 - 2)}
			at := abs.AKAAttr{Type: t}
			switch t {
			case abs.ATRand, abs.ATAutn, abs.ATMac:
				if words != 5 {
					ar.fail("attribute %d length %d words, not 5", t, words)
				}
				if strict {
					ar.zero(2, "AKA' attribute reserved")
				} else {
					ar.take(2)
				}
				at.Value = dup(ar.take(16))
			case abs.ATRes, abs.ATKdfInput:
				bits := int(ar.u16())
				if bits%8 != 0 {
					ar.fail("attribute %d bit length %d", t, bits)
				}
				at.Value = dup(ar.take(bits / 8))
				if len(ar.b) > 3 {
					ar.fail("attribute %d has %d padding octets", t, len(ar.b))
				}
				if strict {
					ar.zero(len(ar.b), "AKA' padding")
				} else {
					ar.take(len(ar.b))
				}
			case abs.ATKdf:
				if words != 1 {
					ar.fail("AT_KDF length %d words", words)
				}
				at.Value = dup(ar.take(2))
			case abs.ATCheckcode:
				if strict {
					ar.zero(2, "AT_CHECKCODE reserved")
				} else {
					ar.take(2)
				}
				at.Value = dup(ar.take(len(ar.b)))
			default:
				ar.fail("AKA' attribute type %d not handled", t)
			}
			if ar.err == nil && len(ar.b) != 0 {
				ar.fail("attribute %d: %d trailing octets", t, len(ar.b))
			}
			if ar.err != nil {
				return nil, ar.err
			}
			a.Attrs = append(a.Attrs, at)
		}
		m.AKA = a
	case abs.MIdentity, abs.MNotification, abs.MNak:
		m.Data = dup(r.take(len(r.b)))
	default:
		return nil, fmt.Errorf("ref parse: EAP method %d not implemented", m.Type)
	}
	if r.err != nil {
		return nil, r.err
	}
	e.Method = m
	return e, nil
}
