package ref

import (
	"bytes"
	"encoding/hex"
	"fmt"
	"math/big"

	"verifharness/abs"
)

func unhex(s string) []byte {
	b, err := hex.DecodeString(s)
	if err != nil {
		panic(err)
	}
	return b
}

// SelfCheck validates the reference implementations against published
// vectors.  A failure means the oracle is broken (exit 2), never a verdict.
func SelfCheck() error {
	rep := func(b byte, n int) []byte { return bytes.Repeat([]byte{b}, n) }
	type hv struct {
		h        int
		key, msg []byte
		want     string
	}
	for i, v := range []hv{
		// RFC 2202
		{HMD5, rep(0x0b, 16), []byte("Hi There"), "9294727a3638bb1c13f48ef8158bfc9d"},
		{HMD5, []byte("Jefe"), []byte("what do ya want for nothing?"), "750c783e6ab0b503eaa86e310a5db738"},
		{HMD5, rep(0xaa, 80), []byte("Test Using Larger Than Block-Size Key - Hash Key First"), "6b1ab7fe4bd7bf8f0b62e6ce61b9d0cd"},
		{HSHA1, rep(0x0b, 20), []byte("Hi There"), "b617318655057264e28bc0b6fb378c8ef146be00"},
		{HSHA1, []byte("Jefe"), []byte("what do ya want for nothing?"), "effcdf6ae5eb2fa2d27416d5f184df9c259a7c79"},
		{HSHA1, rep(0xaa, 80), []byte("Test Using Larger Than Block-Size Key - Hash Key First"), "aa4ae5e15272d00e95705637ce8a3b55ed402112"},
		// RFC 4231
		{HSHA256, rep(0x0b, 20), []byte("Hi There"), "b0344c61d8db38535ca8afceaf0bf12b881dc200c9833da726e9376c2e32cff7"},
		{HSHA256, []byte("Jefe"), []byte("what do ya want for nothing?"), "5bdcc146bf60754e6a042426089575c75a003f089d2739839dec58b964ec3843"},
		{HSHA256, rep(0xaa, 131), []byte("Test Using Larger Than Block-Size Key - Hash Key First"), "60e431591ee0b67f0d8a26aacbf5b77f8e0bc6213728c5140546040f0ee37f54"},
	} {
		if got := hex.EncodeToString(HMAC(v.h, v.key, v.msg)); got != v.want {
			return fmt.Errorf("HMAC vector %d: got %s want %s", i, got, v.want)
		}
	}
	// NIST SP 800-38A F.2.1 / F.2.3 / F.2.5 (CBC-AES128/192/256), first two blocks
	iv := unhex("000102030405060708090a0b0c0d0e0f")
	pt := unhex("6bc1bee22e409f96e93d7e117393172aae2d8a571e03ac9c9eb76fac45af8e51")
	for _, v := range []struct{ key, ct string }{
		{"2b7e151628aed2a6abf7158809cf4f3c", "7649abac8119b246cee98e9b12e9197d5086cb9b507219ee95db113a917678b2"},
		{"8e73b0f7da0e6452c810f32b809079e562f8ead2522c6b7b", "4f021db243bc633d7178183a9fa071e8b4d9ada9ad7dedf4e5e738763f69145a"},
		{"603deb1015ca71be2b73aef0857d77811f352c073b6108d72d9810a30914dff4", "f58c4c04d6e5f1ba779eabfb5f7bfbd69cfc4e967edb808d679f777bc6702c7d"},
	} {
		ct, err := CBCEncrypt(unhex(v.key), iv, pt)
		if err != nil || hex.EncodeToString(ct) != v.ct {
			return fmt.Errorf("CBC encrypt vector (key %d): got %x err %v", len(v.key)/2, ct, err)
		}
		back, err := CBCDecrypt(unhex(v.key), iv, ct)
		if err != nil || !bytes.Equal(back, pt) {
			return fmt.Errorf("CBC decrypt vector (key %d)", len(v.key)/2)
		}
	}
	// primes: size, low/high 64 bits all ones, safe primes
	for _, p := range []*big.Int{P1024, P2048} {
		b := p.Bytes()
		if len(b) != 128 && len(b) != 256 {
			return fmt.Errorf("prime has %d octets", len(b))
		}
		for i := 0; i < 8; i++ {
			if b[i] != 0xff || b[len(b)-1-i] != 0xff {
				return fmt.Errorf("prime does not start/end with 64 one bits")
			}
		}
		q := new(big.Int).Rsh(p, 1)
		if !p.ProbablyPrime(4) || !q.ProbablyPrime(4) {
			return fmt.Errorf("formula-derived modulus is not a safe prime")
		}
	}
	// well-known leading digits of the Oakley group 2 prime after the ones: C90FDAA2 2168C234 (pi)
	if hex.EncodeToString(P1024.Bytes()[8:16]) != "c90fdaa22168c234" {
		return fmt.Errorf("pi digits wrong: %x", P1024.Bytes()[8:16])
	}
	// modexp: 2^10 mod 1000 = 24; Fermat on P1024
	if ModExp(big.NewInt(2), big.NewInt(10), big.NewInt(1000)).Int64() != 24 {
		return fmt.Errorf("ModExp small case")
	}
	pm1 := new(big.Int).Sub(P1024, big.NewInt(1))
	if ModExp(big.NewInt(3), pm1, P1024).Cmp(big.NewInt(1)) != 0 {
		return fmt.Errorf("ModExp Fermat check")
	}
	// codec: encode -> strict parse is the identity on a fixed message using every payload kind
	m := &abs.Msg{ISPI: 1, RSPI: 2, Major: 2, Exch: 35, Flags: 8, MsgID: 7, Payloads: []abs.Payload{
		{Kind: abs.PSA, SA: &abs.SA{Proposals: []abs.Proposal{{Num: 1, Proto: 1, SPI: abs.HB{1, 2, 3, 4},
			Transforms: []abs.Transform{{Type: 1, ID: 12, HasAttr: true, TV: true, AttrType: 14, AttrVal: 256},
				{Type: 3, ID: 2}, {Type: 2, ID: 5, HasAttr: true, AttrType: 300, AttrBytes: abs.HB{9, 9, 9}}}},
			{Num: 2, Proto: 3, Transforms: []abs.Transform{{Type: 5, ID: 0}}}}}},
		{Kind: abs.PKE, KE: &abs.KE{Group: 14, Data: abs.HB{1}}},
		{Kind: abs.PIDi, ID: &abs.ID{Type: 2, Data: abs.HB("x")}},
		{Kind: abs.PCERT, Cert: &abs.Cert{Enc: 4, Data: abs.HB{5}}},
		{Kind: abs.PAUTH, Auth: &abs.Auth{Method: 2, Data: abs.HB{6}}},
		{Kind: abs.PNonce, Data: abs.HB{7, 7}},
		{Kind: abs.PNotify, Notify: &abs.Notify{Proto: 3, Type: 16393, SPI: abs.HB{1, 2, 3, 4}, Data: abs.HB{8}}},
		{Kind: abs.PDelete, Delete: &abs.Delete{Proto: 3, SPISize: 4, Num: 2, SPIs: []uint32{1, 2}}},
		{Kind: abs.PVendor, Data: abs.HB("v")},
		{Kind: abs.PTSi, TS: &abs.TS{Sel: []abs.Selector{{Type: 7, Proto: 6, StartPort: 1, EndPort: 2, StartAddr: abs.HB{1, 1, 1, 1}, EndAddr: abs.HB{2, 2, 2, 2}},
			{Type: 8, StartAddr: make(abs.HB, 16), EndAddr: make(abs.HB, 16)}}}},
		{Kind: abs.PCP, CP: &abs.CP{Type: 1, Attrs: []abs.CPAttr{{Type: 1, Value: abs.HB{10, 0, 0, 1}}, {Type: 3}}}},
		{Kind: abs.PEAP, EAP: &abs.EAP{Code: 1, ID: 9, Method: &abs.Method{Type: abs.MAkaPrime, AKA: &abs.AKA{Subtype: 1, Attrs: []abs.AKAAttr{
			{Type: abs.ATRand, Value: make(abs.HB, 16)}, {Type: abs.ATRes, Value: abs.HB{1, 2, 3, 4, 5}},
			{Type: abs.ATKdfInput, Value: abs.HB("ab")}, {Type: abs.ATKdf, Value: abs.HB{0, 1}}, {Type: abs.ATCheckcode, Value: make(abs.HB, 20)}}}}}},
	}}
	b, err := EncodeMsg(m, nil)
	if err != nil {
		return fmt.Errorf("codec self-check encode: %v", err)
	}
	back, err := ParseMsg(b)
	if err != nil {
		return fmt.Errorf("codec self-check parse: %v", err)
	}
	if !abs.Equal(m, back) {
		return fmt.Errorf("codec self-check round trip: %s", abs.Diff(m, back))
	}
	// SK: protect -> unprotect
	s := Suites[4]
	k := DirKeys{Ke: rep(1, s.EncKeyLen), Ka: rep(2, s.IntegKeyLen())}
	inner, _, _ := EncodeChain(m.Payloads, nil)
	padn := (16 - (len(inner)+1)%16) % 16
	pb, err := Protect(m, s, k, rep(3, 16), rep(0xEE, padn), nil)
	if err != nil {
		return fmt.Errorf("protect self-check: %v", err)
	}
	um, pad, _, err := Unprotect(pb, s, k)
	if err != nil || !abs.Equal(m, um) || len(pad) != padn {
		return fmt.Errorf("unprotect self-check: %v", err)
	}
	// RFC 5448 / TS 33.501-style sanity of PRF': counter starts at 1, T1 = HMAC(K, S|0x01)
	t1 := HMAC(HSHA256, []byte("k"), append([]byte("s"), 1))
	if !bytes.Equal(PrfPrime([]byte("k"), []byte("s"), 32), t1) {
		return fmt.Errorf("PRF' first block")
	}
	return nil
}
