package ref

import "math/big"

// piFixed returns floor(pi * 2^bits) computed with Machin's formula
// pi = 16 arctan(1/5) - 4 arctan(1/239) in integer arithmetic with guard bits.
func piFixed(bits uint) *big.Int {
	const guard = 96
	one := new(big.Int).Lsh(big.NewInt(1), bits+guard)
	arctanInv := func(x int64) *big.Int {
		// sum_{k>=0} (-1)^k / ((2k+1) x^(2k+1))
		X := big.NewInt(x)
		X2 := new(big.Int).Mul(X, X)
		term := new(big.Int).Quo(one, X) // 1/x
		sum := new(big.Int).Set(term)
		for k := int64(1); term.Sign() != 0; k++ {
			term.Quo(term, X2)
			t := new(big.Int).Quo(term, big.NewInt(2*k+1))
			if k%2 == 1 {
				sum.Sub(sum, t)
			} else {
				sum.Add(sum, t)
			}
		}
		return sum
	}
	pi := new(big.Int).Mul(big.NewInt(16), arctanInv(5))
	pi.Sub(pi, new(big.Int).Mul(big.NewInt(4), arctanInv(239)))
	return pi.Rsh(pi, guard)
}

func pow2(n uint) *big.Int { return new(big.Int).Lsh(big.NewInt(1), n) }

// OakleyPrime computes 2^n - 2^(n-64) - 1 + 2^64 * (floor(2^(n-130) pi) + c)
// (RFC 2409 section 6.2, RFC 3526 section 3).
func OakleyPrime(n uint, c int64) *big.Int {
	p := pow2(n)
	p.Sub(p, pow2(n-64))
	p.Sub(p, big.NewInt(1))
	t := piFixed(n - 130)
	t.Add(t, big.NewInt(c))
	t.Lsh(t, 64)
	return p.Add(p, t)
}

var (
	P1024 = OakleyPrime(1024, 129093)
	P2048 = OakleyPrime(2048, 124476)
)

// ModExp is square-and-multiply on Mul/Mod only (not big.Int.Exp).
func ModExp(base, exp, mod *big.Int) *big.Int {
	r := big.NewInt(1)
	r.Mod(r, mod)
	b := new(big.Int).Mod(base, mod)
	for i := exp.BitLen() - 1; i >= 0; i-- {
		r.Mul(r, r)
		r.Mod(r, mod)
		if exp.Bit(i) == 1 {
			r.Mul(r, b)
			r.Mod(r, mod)
		}
	}
	return r
}

// FixedLen renders v big-endian in exactly n octets (leading zeros kept).
func FixedLen(v *big.Int, n int) []byte {
	b := v.Bytes()
	if len(b) >= n {
		return b[len(b)-n:]
	}
	o := make([]byte, n)
	copy(o[n-len(b):], b)
	return o
}
