// Package mon holds the monitors that are not plain reference comparisons:
// the replaceable random source, recording spies for the cipher and MAC
// objects of an IKE SA, placement helpers for hostile inputs.
package mon

import (
	"crypto/rand"
	"crypto/sha256"
	"errors"
	"fmt"
	"hash"
	"io"
	"os"
	"sync"
	"syscall"

	ikeCrypto "github.com/free5gc/ike/security/IKECrypto"
)

// ---------------------------------------------------------------------------
// random-source shim (replaces the crypto/rand.Reader global)

var (
	randMu   sync.Mutex
	realRand = rand.Reader
)

// Recorder counts what is drawn from the wrapped source.
type Recorder struct {
	Src   io.Reader
	mu    sync.Mutex
	Reads int
	Bytes int
	Log   [][]byte // copies of what was returned (only if KeepLog)
	Keep  bool
}

func (r *Recorder) Read(p []byte) (int, error) {
	n, err := r.Src.Read(p)
	r.mu.Lock()
	r.Reads++
	r.Bytes += n
	if r.Keep {
		r.Log = append(r.Log, append([]byte{}, p[:n]...))
	}
	r.mu.Unlock()
	return n, err
}

// Const yields one octet value forever.
type Const byte

func (c Const) Read(p []byte) (int, error) {
	for i := range p {
		p[i] = byte(c)
	}
	return len(p), nil
}

var ErrInjected = errors.New("injected random source failure")

// Faulty fails at read number FailAt (0-based); Mode: 0 = error with no data,
// 1 = short read (half) with nil error then error, 2 = partial data plus error.
type Faulty struct {
	Src    io.Reader
	FailAt int
	Mode   int
	Err    error // the error reported from read FailAt on (default ErrInjected); it persists: every later read fails too
	n      int
	Hit    bool
}

// FaultErrors: the kinds of error a random source can report; "temporary"-looking ones (EINTR, EAGAIN, timeouts) are
// failures like any other as far as "an error instead of a key / ciphertext" goes.
var FaultErrors = []error{ErrInjected, io.EOF, io.ErrUnexpectedEOF, io.ErrNoProgress, syscall.EINTR, syscall.EAGAIN, os.ErrDeadlineExceeded,
	fmt.Errorf("read /dev/urandom: %w", syscall.EAGAIN), &os.PathError{Op: "read", Path: "/dev/urandom", Err: syscall.EINTR}}

func (f *Faulty) err() error {
	if f.Err != nil {
		return f.Err
	}
	return ErrInjected
}

func (f *Faulty) Read(p []byte) (int, error) {
	i := f.n
	f.n++
	if i < f.FailAt {
		return f.Src.Read(p)
	}
	f.Hit = true
	switch f.Mode {
	case 1:
		if i == f.FailAt && len(p) > 1 {
			return f.Src.Read(p[:len(p)/2])
		}
		return 0, f.err()
	case 2:
		if len(p) > 1 {
			n, _ := f.Src.Read(p[:len(p)/2])
			return n, f.err()
		}
		return 0, f.err()
	}
	return 0, f.err()
}

// WithRand runs f with crypto/rand.Reader replaced by src (sequential
// workloads only: the lock serialises users of the shim).
func WithRand(src io.Reader, f func()) {
	randMu.Lock()
	old := rand.Reader
	rand.Reader = src
	defer func() {
		rand.Reader = old
		randMu.Unlock()
	}()
	f()
}

func RealRand() io.Reader { return realRand }

// ---------------------------------------------------------------------------
// spies

type Event struct {
	Obj  string // "Encr_i", "Integ_r", ...
	Op   string // Encrypt, Decrypt, Reset, Write, Sum
	Len  int
	Hash [32]byte // sha256 of the argument (Write/Encrypt/Decrypt) or of the result (Sum)
	Data []byte   // copy of the argument of Write (so that chunked writes can be concatenated)
}

// MACInput returns, for the LAST Sum event on obj, the concatenation of everything written to obj since the
// Reset preceding it, and whether that computation did start with a Reset (or with the object's first use).
func MACInput(ev []Event, obj string) (data []byte, startedClean bool, found bool) {
	last := -1
	for i, e := range ev {
		if e.Obj == obj && e.Op == "Sum" {
			last = i
		}
	}
	if last < 0 {
		return nil, false, false
	}
	// walk back to the start of this computation
	start := -1
	for i := last - 1; i >= 0; i-- {
		if ev[i].Obj != obj {
			continue
		}
		if ev[i].Op == "Reset" {
			start = i
			startedClean = true
			break
		}
		if ev[i].Op == "Sum" { // previous computation ended here without a Reset in between
			start = i
			break
		}
	}
	if start < 0 {
		startedClean = false // writes before any Reset: only clean if the object was fresh; callers decide
	}
	for i := start + 1; i < last; i++ {
		if ev[i].Obj == obj && ev[i].Op == "Write" {
			data = append(data, ev[i].Data...)
		}
	}
	return data, startedClean, true
}

func (e Event) String() string { return fmt.Sprintf("%s.%s(%d)", e.Obj, e.Op, e.Len) }

type Trace struct {
	mu sync.Mutex
	Ev []Event
}

func (t *Trace) add(e Event) {
	t.mu.Lock()
	t.Ev = append(t.Ev, e)
	t.mu.Unlock()
}
func (t *Trace) Reset() { t.mu.Lock(); t.Ev = nil; t.mu.Unlock() }
func (t *Trace) Snapshot() []Event {
	t.mu.Lock()
	defer t.mu.Unlock()
	return append([]Event{}, t.Ev...)
}
func (t *Trace) String() string {
	s := ""
	for i, e := range t.Snapshot() {
		if i > 0 {
			s += " "
		}
		s += e.String()
	}
	return s
}

type SpyCrypto struct {
	Name  string
	Inner ikeCrypto.IKECrypto
	T     *Trace
}

func (s *SpyCrypto) Encrypt(p []byte) ([]byte, error) {
	s.T.add(Event{Obj: s.Name, Op: "Encrypt", Len: len(p), Hash: sha256.Sum256(p)})
	return s.Inner.Encrypt(p)
}
func (s *SpyCrypto) Decrypt(c []byte) ([]byte, error) {
	s.T.add(Event{Obj: s.Name, Op: "Decrypt", Len: len(c), Hash: sha256.Sum256(c)})
	return s.Inner.Decrypt(c)
}

type SpyHash struct {
	Name  string
	Inner hash.Hash
	T     *Trace
}

func (s *SpyHash) Write(p []byte) (int, error) {
	s.T.add(Event{Obj: s.Name, Op: "Write", Len: len(p), Hash: sha256.Sum256(p), Data: append([]byte{}, p...)})
	return s.Inner.Write(p)
}
func (s *SpyHash) Sum(b []byte) []byte {
	r := s.Inner.Sum(b)
	s.T.add(Event{Obj: s.Name, Op: "Sum", Len: len(r) - len(b), Hash: sha256.Sum256(r[len(b):])})
	return r
}
func (s *SpyHash) Reset()         { s.T.add(Event{Obj: s.Name, Op: "Reset"}); s.Inner.Reset() }
func (s *SpyHash) Size() int      { return s.Inner.Size() }
func (s *SpyHash) BlockSize() int { return s.Inner.BlockSize() }

// ---------------------------------------------------------------------------
// placements of an input byte string in memory

// Placement kinds.
const (
	PlaceExact  = iota // cap == len
	PlaceZeros         // 0xA5 in front, 0x00 behind
	PlaceFF            // 0xFF behind
	PlaceTail          // caller-supplied continuation behind
	NPlacements = 4
)

// Place returns a slice holding in, laid out according to kind.  tail is the
// continuation used by PlaceTail (e.g. the remainder a truncation was cut from).
func Place(in []byte, kind int, tail []byte) []byte {
	switch kind {
	case PlaceExact:
		b := make([]byte, len(in))
		copy(b, in)
		return b[:len(in):len(in)]
	case PlaceZeros:
		buf := make([]byte, 16+len(in)+64)
		for i := 0; i < 16; i++ {
			buf[i] = 0xA5
		}
		copy(buf[16:], in)
		return buf[16 : 16+len(in)]
	case PlaceFF:
		buf := make([]byte, len(in)+64)
		copy(buf, in)
		for i := len(in); i < len(buf); i++ {
			buf[i] = 0xFF
		}
		return buf[:len(in)]
	default:
		if len(tail) == 0 {
			tail = []byte{0x21, 0x00, 0x00, 0x08, 0x00, 0x00, 0x00, 0x01, 0x00, 0x00, 0x00, 0x08, 1, 2, 3, 4}
		}
		buf := make([]byte, len(in)+len(tail))
		copy(buf, in)
		copy(buf[len(in):], tail)
		return buf[:len(in)]
	}
}
