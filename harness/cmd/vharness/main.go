// vharness is the child-process binary of the verification framework.
//
//	vharness run <Cxx> -tier quick|thorough -seed N -shard i/n -out file [-only family:index]
//	vharness selfcheck
package main

import (
	"flag"
	"fmt"
	"os"
	"runtime"
	"strconv"
	"strings"
	"time"

	"verifharness/core"
	"verifharness/props"
	"verifharness/ref"
)

func main() {
	if len(os.Args) < 2 {
		fmt.Fprintln(os.Stderr, "usage: vharness run|selfcheck|list ...")
		os.Exit(64)
	}
	switch os.Args[1] {
	case "fresh": // one registered case as the first use of the library in this process
		i, _ := strconv.Atoi(os.Args[3])
		rep := 0
		if len(os.Args) > 4 {
			rep, _ = strconv.Atoi(os.Args[4])
		}
		fmt.Println(props.Fresh(os.Args[2], i, rep))
	case "list":
		for id := range core.Props {
			fmt.Println(id)
		}
	case "selfcheck":
		if err := ref.SelfCheck(); err != nil {
			fmt.Fprintln(os.Stderr, "reference self-check FAILED:", err)
			os.Exit(2)
		}
		fmt.Println("reference self-check ok")
	case "run":
		if len(os.Args) < 3 {
			os.Exit(64)
		}
		prop := os.Args[2]
		fs := flag.NewFlagSet("run", flag.ExitOnError)
		tier := fs.String("tier", "quick", "")
		seed := fs.Int64("seed", 1, "")
		shard := fs.String("shard", "0/1", "")
		out := fs.String("out", "", "")
		only := fs.String("only", "", "")
		sub := fs.Int("subsample", 1, "")
		caseLimit := fs.Int("case-limit-s", 0, "per-case watchdog in seconds (0 = default)")
		fs.Parse(os.Args[3:])
		f, ok := core.Props[prop]
		if !ok {
			fmt.Fprintln(os.Stderr, "unknown property", prop)
			os.Exit(64)
		}
		if err := ref.SelfCheck(); err != nil {
			fmt.Fprintln(os.Stderr, "reference self-check FAILED:", err)
			os.Exit(2)
		}
		sp := strings.Split(*shard, "/")
		si, _ := strconv.Atoi(sp[0])
		sn, _ := strconv.Atoi(sp[1])
		c := core.NewCtx(prop, *tier, *seed, si, sn)
		if *only != "" {
			i := strings.LastIndex(*only, ":")
			idx, _ := strconv.Atoi((*only)[i+1:])
			c.Only = &core.Coord{Family: (*only)[:i], Index: idx}
		}
		c.Subsample = *sub
		if *out != "" {
			c.OpenWAL(*out + ".wal")
		}
		core.StartWatchdog(time.Duration(*caseLimit) * time.Second)
		c.Info("go_version", runtime.Version())
		c.Info("gomaxprocs", strconv.Itoa(runtime.GOMAXPROCS(0)))
		f(c)
		if *out != "" {
			if err := c.WriteResult(*out); err != nil {
				fmt.Fprintln(os.Stderr, err)
				os.Exit(3)
			}
		} else {
			r := c.Result()
			fmt.Printf("evals=%d sigs=%d violations=%d\n", r.Evals, len(r.Sigs), len(r.Violations))
			for _, v := range r.Violations {
				fmt.Printf("VIOL %s/%d kind=%s class=%s\n  %s\n", v.Family, v.Index, v.Kind, v.Class, v.Detail)
			}
			for k, v := range r.Counters {
				fmt.Printf("  %s=%d\n", k, v)
			}
		}
	default:
		os.Exit(64)
	}
}
