// Package gen holds the seeded generators: messages of the "encodable domain"
// exactly as the properties spell it out (boundary-biased, not uniform noise)
// and byte-string mutators.
package gen

import (
	"verifharness/abs"
	"verifharness/core"
	"verifharness/ref"
)

type R = core.Rng

var (
	spiSizesSA     = []int{0, 0, 1, 4, 4, 8, 8, 16, 247, 248, 251, 252, 255}
	spiSizesNotify = []int{0, 0, 0, 4, 4, 8, 16, 251, 252, 255}
	attrTypes      = []int{0, 1, 14, 14, 14, 127, 128, 142, 255, 256, 0x3fff, 0x7fff}
	tlvLens        = []int{1, 2, 3, 4, 16, 255, 256}
	tvVals         = []int{0, 1, 128, 192, 256, 65535}
)

// Size picks a data length: mostly small, sometimes around interesting sizes.
func Size(r *R, min int) int {
	switch r.Intn(20) {
	case 0:
		return min
	case 1:
		return min + 1
	case 2:
		return r.Pick(15, 16, 17, 31, 32, 33)
	case 3:
		return r.Pick(127, 128, 129, 255, 256, 257)
	case 4:
		return r.Range(300, 1200)
	case 5: // around powers of two (buffer sizes, growth steps, 15-bit lengths)
		if r.Chance(1, 3) {
			return r.Pick(511, 512, 513, 1023, 1024, 1025, 2047, 2048, 2049, 4091, 4092, 4095, 4096, 4097, 4100, 8191, 8192, 8193, 16383, 16384, 16385, 32767, 32768, 32769)
		}
		return r.Range(min, 40)
	default:
		return r.Range(min, 40)
	}
}

func Data(r *R, min int) abs.HB {
	n := Size(r, min)
	if n < min {
		n = min
	}
	return DataN(r, n)
}

func DataN(r *R, n int) abs.HB {
	switch r.Intn(14) {
	case 12:
		return Text(r, n)
	case 0:
		return make(abs.HB, n) // zeros
	case 1:
		b := make(abs.HB, n)
		for i := range b {
			b[i] = 0xff
		}
		return b
	}
	return abs.HB(r.Bytes(n))
}

// Addr makes an n-octet address field with the values that mean something to IP code: 16-octet values inside
// ::ffff:0:0/96 (IPv4-mapped, the form package net hands out for IPv4), ::, ::1, IPv4-compatible, NAT64, link-local,
// and for 4 octets 0.0.0.0, broadcast, loopback, private ranges.  Other sizes fall back to DataN.
func Addr(r *R, n int) abs.HB {
	switch n {
	case 4:
		switch r.Intn(8) {
		case 0:
			return abs.HB{0, 0, 0, 0}
		case 1:
			return abs.HB{255, 255, 255, 255}
		case 2:
			return abs.HB{127, 0, 0, 1}
		case 3:
			return abs.HB{10, 0, 0, byte(r.Intn(256))}
		case 4:
			return abs.HB{192, 168, byte(r.Intn(256)), byte(r.Intn(256))}
		}
		return abs.HB(r.Bytes(4))
	case 16:
		b := make(abs.HB, 16)
		switch r.Intn(10) {
		case 0, 1, 2: // IPv4-mapped
			b[10], b[11] = 0xff, 0xff
			copy(b[12:], Addr(r, 4))
		case 3: // ::
		case 4:
			b[15] = 1
		case 5: // IPv4-compatible (deprecated)
			copy(b[12:], Addr(r, 4))
		case 6: // NAT64 well-known prefix
			b[1], b[2], b[3] = 0x64, 0xff, 0x9b
			copy(b[12:], Addr(r, 4))
		case 7:
			copy(b, r.Bytes(16))
			b[0], b[1] = 0xfe, 0x80
		default:
			return DataN(r, 16)
		}
		return b
	}
	return DataN(r, n)
}

// IDData makes identification data that fits (or deliberately mis-fits) the ID type: addresses for ID_IPV4_ADDR /
// ID_IPV6_ADDR (including the 16-octet form of an IPv4 address under ID_IPV4_ADDR), text for FQDN / RFC822.
func IDData(r *R, typ uint8) abs.HB {
	switch typ {
	case 1:
		switch r.Intn(4) {
		case 0:
			b := make(abs.HB, 16)
			b[10], b[11] = 0xff, 0xff
			copy(b[12:], Addr(r, 4))
			return b
		case 1:
			return Addr(r, 16)
		case 2:
			return Data(r, 1)
		}
		return Addr(r, 4)
	case 5:
		if r.Chance(1, 4) {
			return Addr(r, 4)
		}
		return Addr(r, 16)
	case 2, 3:
		if r.Chance(2, 3) {
			return Name(r)
		}
	}
	if r.Chance(1, 8) {
		return Text(r, r.Pick(8, 16, 32, 64))
	}
	return Data(r, 1)
}

// NotifyData makes notification data in the shape the notify type calls for (RFC 7296 3.10.1, 3GPP TS 24.502 9.3.1),
// so that type-specific code paths see values that look genuine.
func NotifyData(r *R, typ uint16) abs.HB {
	switch typ {
	case 16388, 16389: // NAT_DETECTION_*: SHA-1 digest
		return DataN(r, 20)
	case 16390, 16401: // COOKIE, COOKIE2
		return DataN(r, r.Pick(1, 8, 64))
	case 16393: // REKEY_SA: none
		return nil
	case 16397:
		return Addr(r, 4)
	case 16398:
		return Addr(r, 16)
	case 17: // INVALID_KE_PAYLOAD: group
		return abs.HB{0, byte(r.Pick(2, 14, 19))}
	case 55501: // 5G_QOS_INFO: Length | PDU session id | number of QFIs | QFIs | flags | DSCP?
		n := r.Pick(0, 1, 1, 2, 3, 8, 63, 64)
		b := abs.HB{0, r.Byte(), byte(n)}
		for i := 0; i < n; i++ {
			b = append(b, byte(r.Pick(0, 1, 5, 9, 63, 63, 64, 255)))
		}
		fl := byte(r.Intn(4))
		b = append(b, fl)
		if fl&2 != 0 {
			b = append(b, r.Byte())
		}
		b[0] = byte(len(b))
		switch r.Intn(8) {
		case 0:
			b[0]++
		case 1:
			b[2] = byte(r.Pick(n+1, n+2, 255))
		}
		return b
	case 55502, 55504:
		if r.Chance(1, 4) {
			return Addr(r, 16)
		}
		return Addr(r, 4)
	case 55503, 55505:
		return Addr(r, 16)
	case 55506:
		return DataN(r, 2)
	}
	return Data(r, 0)
}

// Text makes n octets that LOOK like text of some kind: code that sniffs formats (hex, base64, digits, printable
// ASCII, UTF-8) or parses names must still treat binary fields as binary and text fields by their grammar.
func Text(r *R, n int) abs.HB {
	alpha := []string{"0123456789abcdef", "0123456789ABCDEF", "0123456789", "ABCDEFGHIJKLMNOPQRSTUVWXYZabcdefghijklmnopqrstuvwxyz0123456789+/", "abcdefghijklmnopqrstuvwxyz", " ~!@#$%^&*()_+", "\xc3\xa9\xe2\x82\xac"}[r.Intn(7)]
	b := make(abs.HB, n)
	for i := range b {
		b[i] = alpha[r.Intn(len(alpha))]
	}
	if n > 2 && r.Chance(1, 4) {
		b[n-1], b[n-2] = '=', '=' // base64 padding
	}
	return b
}

// Name makes FQDN / RFC 822 / NAI edge cases: empty labels, lone and trailing dots and hyphens, missing local part or
// domain, several '@', control characters, very long labels.
func Name(r *R) abs.HB {
	edge := []string{".", "..", "a.", ".a", "a..b", "-", "a-", "-a", "a.-", "@", "a@", "@a", "a@.", "@.", "a@b.", "a@@b", "a@b@c", "a b", "\x00", "a\x00b", "a\r\nb",
		"xn--", "*.example.org", "a@[10.0.0.1]", "0", "1.2.3.4", "::1", "localhost", "a@localhost", " ", "a@b.c.", "ue@", "ue@.", "ue@-", "ue@a-", "0208930000000001@nai.5gc.mnc093.mcc208.3gppnetwork.org"}
	switch r.Intn(5) {
	case 0, 1:
		return abs.HB(edge[r.Intn(len(edge))])
	case 2:
		l := abs.HB(r.PickS("a", "ue", "0123456789012345"))
		return append(append(l, '@'), abs.HB(edge[r.Intn(len(edge))])...)
	case 3:
		b := make(abs.HB, r.Pick(63, 64, 65, 253, 254, 255, 256))
		for i := range b {
			b[i] = 'a'
		}
		if r.Bool() {
			b[len(b)/2] = '.'
		}
		return b
	}
	return abs.HB(r.PickS("n3iwf.5gc.mnc093.mcc208.pub.3gppnetwork.org", "user@example.org", "a"))
}

// KE makes a key exchange (group, public value) pair in which length and leading octets RELATE to the group the way
// real values do: modulus length of the named MODP / ECP group, one octet more or less, a leading 0x00 "sign" octet
// followed by an octet with the top bit set (the DER / big.Int habit), values >= p, all-zero and all-FF.
func KE(r *R) (uint16, abs.HB) {
	groups := []struct {
		id  uint16
		len int
	}{{1, 96}, {2, 128}, {5, 192}, {14, 256}, {15, 384}, {16, 512}, {17, 768}, {18, 1024}, {19, 64}, {20, 96}, {21, 132}, {31, 32}}
	g := groups[r.Intn(len(groups))]
	if r.Chance(2, 3) {
		g = groups[r.Pick(1, 3)] // the two groups the library implements
	}
	n := g.len + r.Pick(0, 0, 0, 1, 1, -1, 2)
	d := abs.HB(r.Bytes(n))
	switch r.Intn(6) {
	case 0:
		d[0] = 0
		if n > 1 {
			d[1] = byte(0x80 | r.Intn(128))
		}
	case 1:
		d[0] = 0
		if n > 1 {
			d[1] = byte(r.Intn(128))
		}
	case 2:
		for i := range d {
			d[i] = 0xff
		}
	case 3:
		for i := range d {
			d[i] = 0
		}
		d[n-1] = byte(r.Pick(0, 1, 2))
	}
	return g.id, d
}

// AuthData / CertData: lengths and leading octets that go with the method / encoding.
func AuthData(r *R, method uint8) abs.HB {
	switch method {
	case 14: // RFC 7427: length octet, AlgorithmIdentifier (parameters absent or NULL), signature
		alg := [][]byte{{0x30, 0x0a, 0x06, 0x08, 0x2a, 0x86, 0x48, 0xce, 0x3d, 0x04, 0x03, 0x02},
			{0x30, 0x0d, 0x06, 0x09, 0x2a, 0x86, 0x48, 0x86, 0xf7, 0x0d, 0x01, 0x01, 0x0b, 0x05, 0x00}}[r.Intn(2)]
		if r.Chance(1, 3) {
			return Data(r, 1)
		}
		return append(append(abs.HB{byte(len(alg))}, alg...), r.Bytes(r.Pick(64, 72, 256))...)
	case 1: // RSA signature
		n := r.Pick(128, 256, 384, 512, 257)
		d := abs.HB(r.Bytes(n))
		if r.Bool() {
			d[0] = 0
		}
		return d
	case 2: // shared key MIC: prf output sizes
		return DataN(r, r.Pick(16, 20, 32, 64))
	}
	return Data(r, 1)
}

func CertData(r *R, enc uint8) abs.HB {
	if enc == 4 && r.Bool() { // X.509: DER SEQUENCE with a 2-octet length that fits (or is off by one from) the data
		n := r.Pick(300, 1000, 4096)
		d := abs.HB(r.Bytes(n))
		l := n - 4 + r.Pick(0, 0, 1, -1)
		d[0], d[1], d[2], d[3] = 0x30, 0x82, byte(l>>8), byte(l)
		return d
	}
	return Data(r, 1)
}

// CPValue makes a configuration attribute value of the size the attribute type calls for (RFC 7296 3.15.1).
func CPValue(r *R, typ uint16) abs.HB {
	switch typ {
	case 1, 2, 3, 4, 6: // INTERNAL_IP4_ADDRESS / NETMASK / DNS / NBNS / DHCP
		return Addr(r, r.Pick(0, 4, 4, 4, 16))
	case 8: // INTERNAL_IP6_ADDRESS: address + prefix length
		if r.Chance(1, 4) {
			return nil
		}
		return append(Addr(r, 16), byte(r.Pick(0, 64, 96, 128, 255)))
	case 10, 12: // INTERNAL_IP6_DNS / DHCP
		return Addr(r, r.Pick(0, 16, 16))
	case 13: // INTERNAL_IP4_SUBNET
		return append(Addr(r, 4), Addr(r, 4)...)
	case 15: // INTERNAL_IP6_SUBNET
		return append(Addr(r, 16), byte(r.Pick(0, 64, 96, 128)))
	}
	return Data(r, 0)
}

// dupIdx picks which earlier element (0..i-1) is repeated: the immediately preceding one half of the time
func dupIdx(r *R, i int) int {
	if r.Bool() {
		return i - 1
	}
	return r.Intn(i)
}

func Header(r *R) *abs.Msg {
	m := &abs.Msg{}
	switch r.Intn(6) {
	case 0:
		m.ISPI, m.RSPI = 0, 0
	case 1:
		m.ISPI, m.RSPI = ^uint64(0), ^uint64(0)
	case 2:
		m.ISPI, m.RSPI = r.U64(), 0
	default:
		m.ISPI, m.RSPI = r.U64(), r.U64()
	}
	if r.Chance(2, 3) {
		m.Major, m.Minor = 2, 0
	} else {
		m.Major, m.Minor = uint8(r.Intn(16)), uint8(r.Intn(16))
	}
	if r.Chance(2, 3) {
		m.Exch = uint8(34 + r.Intn(4))
	} else {
		m.Exch = r.Byte()
	}
	if r.Chance(1, 2) {
		m.Flags = uint8(r.Pick(0, 0x08, 0x20, 0x28))
	} else {
		m.Flags = r.Byte()
	}
	switch r.Intn(5) {
	case 0:
		m.MsgID = 0
	case 1:
		m.MsgID = 0xffffffff
	default:
		m.MsgID = r.U32()
	}
	return m
}

func Transform(r *R, typ uint8) abs.Transform {
	t := abs.Transform{Type: typ}
	switch r.Intn(4) {
	case 0:
		t.ID = uint16(r.Intn(16))
	case 1:
		t.ID = uint16(r.Pick(0, 1, 2, 5, 12, 14, 255, 256, 65535))
	default:
		t.ID = r.U16()
	}
	switch r.Intn(5) {
	case 0, 1: // no attribute
	case 2, 3: // TV
		t.HasAttr, t.TV = true, true
		t.AttrType = uint16(attrTypes[r.Intn(len(attrTypes))])
		if r.Bool() {
			t.AttrVal = uint16(tvVals[r.Intn(len(tvVals))])
		} else {
			t.AttrVal = r.U16()
		}
	case 4: // TLV, non-empty
		t.HasAttr, t.TV = true, false
		t.AttrType = uint16(attrTypes[r.Intn(len(attrTypes))])
		t.AttrBytes = DataN(r, tlvLens[r.Intn(len(tlvLens))])
	}
	return t
}

func Proposal(r *R) abs.Proposal {
	p := abs.Proposal{Num: r.Byte(), Proto: uint8(r.Pick(0, 1, 2, 3, 3, 1, int(r.Byte())))}
	p.SPI = DataN(r, spiSizesSA[r.Intn(len(spiSizesSA))])
	n := 1 + r.Intn(5)
	if r.Chance(1, 6) {
		n = 6 + r.Intn(7)
	}
	if r.Chance(1, 60) {
		n = r.Pick(254, 255, 255, 128) // the transform count is an 8-bit field
	}
	for i := 0; i < n; i++ {
		if i > 0 && r.Chance(1, 8) {
			p.Transforms = append(p.Transforms, p.Transforms[dupIdx(r, i)]) // the same transform offered again
			continue
		}
		p.Transforms = append(p.Transforms, Transform(r, uint8(1+r.Intn(5))))
	}
	return p
}

func SA(r *R) abs.Payload {
	sa := &abs.SA{}
	n := 1
	if r.Chance(1, 3) {
		n = 2 + r.Intn(5)
	}
	if r.Chance(1, 80) {
		n = r.Pick(40, 255, 256, 300) // many proposals (small ones, so that the payload still fits)
		for i := 0; i < n; i++ {
			sa.Proposals = append(sa.Proposals, abs.Proposal{Num: uint8(i), Proto: 3, SPI: DataN(r, 4), Transforms: []abs.Transform{Transform(r, uint8(1+r.Intn(5)))}})
		}
		return abs.Payload{Kind: abs.PSA, SA: sa}
	}
	for i := 0; i < n; i++ {
		if i > 0 && r.Chance(1, 8) {
			sa.Proposals = append(sa.Proposals, sa.Proposals[dupIdx(r, i)]) // an identical proposal again
			continue
		}
		if i > 0 && r.Chance(1, 5) {
			// a variant of an earlier proposal: the same transforms plus / minus a few (AES-128 or AES-256, with and
			// without a second DH group)
			q := sa.Proposals[dupIdx(r, i)]
			v := abs.Proposal{Num: r.Byte(), Proto: q.Proto, SPI: q.SPI, Transforms: append([]abs.Transform{}, q.Transforms...)}
			if len(v.Transforms) > 1 && r.Bool() {
				v.Transforms = v.Transforms[:len(v.Transforms)-1]
			}
			for x := r.Intn(3); x > 0 && len(v.Transforms) < 250; x-- {
				v.Transforms = append(v.Transforms, Transform(r, uint8(1+r.Intn(5))))
			}
			sa.Proposals = append(sa.Proposals, v)
			continue
		}
		sa.Proposals = append(sa.Proposals, Proposal(r))
	}
	return abs.Payload{Kind: abs.PSA, SA: sa}
}

func Selector(r *R) abs.Selector {
	s := abs.Selector{Proto: uint8(r.Pick(0, 1, 6, 17, 47, int(r.Byte()))), StartPort: r.U16(), EndPort: r.U16()}
	if r.Chance(1, 4) {
		s.StartPort, s.EndPort = 0, 65535
	}
	if r.Bool() {
		s.Type = 7
		s.StartAddr, s.EndAddr = Addr(r, 4), Addr(r, 4)
	} else {
		s.Type = 8
		s.StartAddr, s.EndAddr = Addr(r, 16), Addr(r, 16)
	}
	return s
}

func TS(r *R, kind uint8) abs.Payload {
	ts := &abs.TS{}
	n := r.Pick(1, 1, 1, 2, 2, 3, 3)
	if r.Chance(1, 25) {
		n = 255
	}
	for i := 0; i < n; i++ {
		if i > 0 && r.Chance(1, 6) {
			ts.Sel = append(ts.Sel, ts.Sel[dupIdx(r, i)]) // an identical selector again
			continue
		}
		ts.Sel = append(ts.Sel, Selector(r))
	}
	return abs.Payload{Kind: kind, TS: ts}
}

func CP(r *R) abs.Payload {
	c := &abs.CP{Type: uint8(r.Pick(1, 2, 3, 4, int(r.Byte())))}
	n := 1 + r.Intn(4)
	if r.Chance(1, 8) {
		n = 5 + r.Intn(36)
	}
	if r.Chance(1, 60) {
		n = r.Pick(255, 256, 257, 400)
	}
	for i := 0; i < n; i++ {
		a := abs.CPAttr{}
		switch r.Intn(3) {
		case 0:
			a.Type = uint16(1 + r.Intn(16))
		case 1:
			a.Type = uint16(r.Pick(0, 1, 0x7fff, 0x7ffe, 0x4000, 255, 256))
		default:
			a.Type = r.U16() & 0x7fff
		}
		if r.Bool() {
			a.Value = CPValue(r, a.Type)
		} else {
			a.Value = Data(r, 0)
		}
		if i > 0 && r.Chance(1, 6) {
			a = c.Attrs[dupIdx(r, i)] // the same attribute (type and value) again
		}
		c.Attrs = append(c.Attrs, a)
	}
	return abs.Payload{Kind: abs.PCP, CP: c}
}

func Notify(r *R) abs.Payload {
	n := &abs.Notify{Proto: uint8(r.Pick(0, 1, 2, 3, int(r.Byte()))), Type: r.U16()}
	if r.Chance(1, 3) {
		n.Type = uint16(r.Pick(1, 7, 14, 17, 16384, 16388, 16389, 16390, 16393, 16397, 16398, 55501, 55501, 55502, 55503, 55504, 55505, 55506))
	}
	n.SPI = DataN(r, spiSizesNotify[r.Intn(len(spiSizesNotify))])
	if r.Bool() {
		n.Data = NotifyData(r, n.Type)
	} else {
		n.Data = Data(r, 0)
	}
	return abs.Payload{Kind: abs.PNotify, Notify: n}
}

func Delete(r *R) abs.Payload {
	d := &abs.Delete{Proto: uint8(r.Pick(1, 2, 3, int(r.Byte())))}
	if r.Chance(1, 3) {
		d.SPISize, d.Num = 0, 0
	} else {
		d.SPISize = 4
		n := r.Pick(1, 1, 1, 2, 2, 3, 0, 255)
		if r.Chance(1, 60) {
			n = 4000
		}
		d.Num = uint16(n)
		for i := 0; i < n; i++ {
			if i > 0 && r.Chance(1, 6) {
				d.SPIs = append(d.SPIs, d.SPIs[dupIdx(r, i)])
				continue
			}
			d.SPIs = append(d.SPIs, r.U32())
		}
	}
	return abs.Payload{Kind: abs.PDelete, Delete: d}
}

// AKA generates an EAP-AKA' method body with a random subset of the seven settable attributes.
func AKA(r *R) *abs.AKA {
	a := &abs.AKA{Subtype: uint8(r.Pick(1, 1, 2, 4, 5, 12, 13, 14, int(r.Byte())))}
	mask := r.Intn(128)
	if r.Chance(1, 4) {
		mask = 127
	}
	return AKAWith(r, a.Subtype, mask)
}

// AKAWith builds the attribute subset given by mask bits
// (RAND, AUTN, RES, MAC, KDF_INPUT, KDF, CHECKCODE).
func AKAWith(r *R, subtype uint8, mask int) *abs.AKA {
	a := &abs.AKA{Subtype: subtype}
	add := func(t uint8, v abs.HB) { a.Attrs = append(a.Attrs, abs.AKAAttr{Type: t, Value: v}) }
	if mask&1 != 0 {
		add(abs.ATRand, DataN(r, 16))
	}
	if mask&2 != 0 {
		add(abs.ATAutn, DataN(r, 16))
	}
	if mask&4 != 0 {
		add(abs.ATRes, DataN(r, r.Range(4, 16)))
	}
	if mask&8 != 0 {
		add(abs.ATMac, DataN(r, 16))
	}
	if mask&16 != 0 {
		n := r.Range(0, 40)
		switch r.Intn(6) {
		case 0:
			n = r.Pick(0, 1, 2, 3, 4)
		case 1:
			n = r.Pick(247, 248, 249, 250, 251, 252, 253, 254, 255, 256, 299, 300)
		case 2:
			n = r.Range(0, 300)
		}
		add(abs.ATKdfInput, DataN(r, n))
	}
	if mask&32 != 0 {
		add(abs.ATKdf, DataN(r, 2))
	}
	if mask&64 != 0 {
		add(abs.ATCheckcode, DataN(r, r.Pick(0, 20, 32)))
	}
	return a
}

// EAP generates a packet of the message-level domain: Success/Failure bare,
// Request/Response with a method.
func EAP(r *R) *abs.EAP {
	e := &abs.EAP{ID: r.Byte()}
	if r.Chance(1, 6) {
		e.Code = uint8(r.Pick(3, 4))
		return e
	}
	e.Code = uint8(r.Pick(1, 2))
	e.Method = Method(r)
	return e
}

func Method(r *R) *abs.Method {
	switch r.Intn(7) {
	case 0:
		if r.Bool() {
			return &abs.Method{Type: abs.MIdentity, Data: Name(r)}
		}
		return &abs.Method{Type: abs.MIdentity, Data: Data(r, 1)}
	case 1:
		return &abs.Method{Type: abs.MNotification, Data: Data(r, 1)}
	case 2:
		return &abs.Method{Type: abs.MNak, Data: Data(r, 1)}
	case 3, 4:
		m := &abs.Method{Type: abs.MExpanded, VendorID: r.U32() & 0xffffff, VendorType: r.U32(), VendorData: Data(r, 0)}
		switch r.Intn(4) {
		case 0: // EAP-5G start
			m.VendorID, m.VendorType, m.VendorData = 10415, 3, abs.HB{1, 0}
		case 1: // EAP-5G NAS
			nas := Data(r, 1)
			m.VendorID, m.VendorType = 10415, 3
			m.VendorData = append(abs.HB{2, 0, byte(len(nas) >> 8), byte(len(nas))}, nas...)
		}
		if r.Chance(1, 10) {
			m.VendorID = uint32(r.Pick(0, 0xffffff))
		}
		return m
	default:
		return &abs.Method{Type: abs.MAkaPrime, AKA: AKA(r)}
	}
}

var allKinds = []uint8{abs.PSA, abs.PKE, abs.PIDi, abs.PIDr, abs.PCERT, abs.PCERTREQ, abs.PAUTH, abs.PNonce,
	abs.PNotify, abs.PDelete, abs.PVendor, abs.PTSi, abs.PTSr, abs.PCP, abs.PEAP}

func AllKinds() []uint8 { return allKinds }

// Payload generates one payload of the encodable domain ("every payload fits the 16-bit payload length": drawn
// again if the reference encoding of the body does not fit).
func Payload(r *R, kind uint8) abs.Payload {
	for {
		p := payload(r, kind)
		if body, err := ref.EncodeBody(p, nil); err == nil && len(body)+4 <= 0xffff {
			return p
		}
	}
}

func payload(r *R, kind uint8) abs.Payload {
	switch kind {
	case abs.PSA:
		return SA(r)
	case abs.PKE:
		if r.Bool() {
			g, d := KE(r)
			return abs.Payload{Kind: kind, KE: &abs.KE{Group: g, Data: d}}
		}
		return abs.Payload{Kind: kind, KE: &abs.KE{Group: uint16(r.Pick(2, 14, int(r.U16()))), Data: Data(r, 1)}}
	case abs.PIDi, abs.PIDr:
		id := &abs.ID{Type: uint8(r.Pick(1, 1, 2, 3, 5, 9, 11, int(r.Byte())))}
		id.Data = IDData(r, id.Type)
		return abs.Payload{Kind: kind, ID: id}
	case abs.PCERT, abs.PCERTREQ:
		enc := uint8(r.Pick(1, 4, 4, 7, int(r.Byte())))
		return abs.Payload{Kind: kind, Cert: &abs.Cert{Enc: enc, Data: CertData(r, enc)}}
	case abs.PAUTH:
		am := uint8(r.Pick(1, 2, 3, 14, int(r.Byte())))
		return abs.Payload{Kind: kind, Auth: &abs.Auth{Method: am, Data: AuthData(r, am)}}
	case abs.PNonce, abs.PVendor:
		return abs.Payload{Kind: kind, Data: Data(r, 0)}
	case abs.PNotify:
		return Notify(r)
	case abs.PDelete:
		return Delete(r)
	case abs.PTSi, abs.PTSr:
		return TS(r, kind)
	case abs.PCP:
		return CP(r)
	case abs.PEAP:
		return abs.Payload{Kind: kind, EAP: EAP(r)}
	}
	panic("gen: unknown kind")
}

// Big makes a payload whose encoded size lands at 65535-k for small k.
func Big(r *R) abs.Payload {
	k := r.Pick(0, 0, 1, 2, 3, 4, 7, 8, 16)
	total := 65535 - k // generic header + body
	body := total - 4
	switch r.Intn(8) {
	case 0:
		return abs.Payload{Kind: abs.PNonce, Data: DataN(r, body)}
	case 1:
		return abs.Payload{Kind: abs.PVendor, Data: DataN(r, body)}
	case 2:
		return abs.Payload{Kind: abs.PKE, KE: &abs.KE{Group: 14, Data: DataN(r, body-4)}}
	case 3:
		return abs.Payload{Kind: abs.PCERT, Cert: &abs.Cert{Enc: 4, Data: DataN(r, body-1)}}
	case 4:
		ss := r.Pick(0, 4, 255)
		return abs.Payload{Kind: abs.PNotify, Notify: &abs.Notify{Proto: 0, Type: r.U16(),
			SPI: DataN(r, ss), Data: DataN(r, body-4-ss)}}
	case 5: // CP with one huge attribute
		return abs.Payload{Kind: abs.PCP, CP: &abs.CP{Type: 1, Attrs: []abs.CPAttr{{Type: 7, Value: DataN(r, body-8)}}}}
	case 6: // SA with a huge TLV attribute
		return abs.Payload{Kind: abs.PSA, SA: &abs.SA{Proposals: []abs.Proposal{{Num: 1, Proto: 1,
			Transforms: []abs.Transform{{Type: 1, ID: 12, HasAttr: true, AttrType: 99, AttrBytes: DataN(r, body-8-8-4)}}}}}}
	default: // EAP expanded
		return abs.Payload{Kind: abs.PEAP, EAP: &abs.EAP{Code: 1, ID: r.Byte(), Method: &abs.Method{Type: abs.MExpanded,
			VendorID: 10415, VendorType: 3, VendorData: DataN(r, body-4-8)}}}
	}
}

// Opt controls message generation.
type Opt struct {
	MaxPayloads int  // default 6
	Protected   bool // keep the protected form within the 16-bit SK payload length
	AllowBig    bool
	AllowEmpty  bool
}

// Msg generates a message of the encodable domain.
func Msg(r *R, o Opt) *abs.Msg {
	if o.MaxPayloads == 0 {
		o.MaxPayloads = 6
	}
	for {
		m := Header(r)
		n := 0
		switch r.Intn(10) {
		case 0:
			if o.AllowEmpty {
				n = 0
			} else {
				n = 1
			}
		case 1, 2, 3:
			n = 1
		default:
			n = 1 + r.Intn(o.MaxPayloads)
		}
		if o.AllowBig && r.Chance(1, 120) {
			// a long chain of small payloads (counts above 255)
			n = r.Pick(255, 256, 257, 300)
			for i := 0; i < n; i++ {
				k := allKinds[r.Intn(len(allKinds))]
				switch k {
				case abs.PSA, abs.PCP, abs.PTSi, abs.PTSr, abs.PEAP, abs.PDelete:
					k = abs.PNotify
				}
				m.Payloads = append(m.Payloads, Payload(r, k))
			}
			if Fits(m, o.Protected) {
				return m
			}
			continue
		}
		for i := 0; i < n; i++ {
			if o.AllowBig && r.Chance(1, 40) {
				m.Payloads = append(m.Payloads, Big(r))
				continue
			}
			if i > 0 && r.Chance(1, 12) {
				m.Payloads = append(m.Payloads, m.Payloads[dupIdx(r, i)]) // the same payload twice (e.g. two identical notifications)
				continue
			}
			m.Payloads = append(m.Payloads, Payload(r, allKinds[r.Intn(len(allKinds))]))
		}
		if Fits(m, o.Protected) {
			return m
		}
	}
}

// Fits says whether every payload fits the 16-bit payload length and, for
// protected messages, whether the SK payload does too.
func Fits(m *abs.Msg, protected bool) bool {
	inner, _, err := ref.EncodeChain(m.Payloads, nil)
	if err != nil {
		return false
	}
	if protected && 4+16+len(inner)+16+16 > 0xffff {
		return false
	}
	return true
}
