// Package abs is the abstract value model of everything observable through the
// public API of free5gc/ike: a plain-data mirror of IKE messages, payloads and
// EAP packets.  It shares no code with the library.  Two bridges exist on the
// library side (Build: abs -> library objects, Observe: library objects -> abs);
// the reference codec in package ref works on abs values only.
package abs

import (
	"encoding/hex"
	"encoding/json"
	"fmt"
	"hash/fnv"
	"sort"
	"strings"
)

// HB is a byte string that prints as hex in JSON; nil and empty are the same value.
type HB []byte

func (h HB) MarshalJSON() ([]byte, error) { return json.Marshal(hex.EncodeToString(h)) }
func (h *HB) UnmarshalJSON(b []byte) error {
	var s string
	if err := json.Unmarshal(b, &s); err != nil {
		return err
	}
	d, err := hex.DecodeString(s)
	if err != nil {
		return err
	}
	*h = d
	return nil
}

// IKE payload type codes (RFC 7296 section 3.2), typed in here, not taken from the library.
const (
	PSA      = 33
	PKE      = 34
	PIDi     = 35
	PIDr     = 36
	PCERT    = 37
	PCERTREQ = 38
	PAUTH    = 39
	PNonce   = 40
	PNotify  = 41
	PDelete  = 42
	PVendor  = 43
	PTSi     = 44
	PTSr     = 45
	PSK      = 46
	PCP      = 47
	PEAP     = 48
)

var KindName = map[uint8]string{
	PSA: "SA", PKE: "KE", PIDi: "IDi", PIDr: "IDr", PCERT: "CERT", PCERTREQ: "CERTREQ",
	PAUTH: "AUTH", PNonce: "Nonce", PNotify: "N", PDelete: "D", PVendor: "V", PTSi: "TSi",
	PTSr: "TSr", PSK: "SK", PCP: "CP", PEAP: "EAP",
}

type Msg struct {
	ISPI, RSPI   uint64
	Major, Minor uint8
	Exch         uint8
	Flags        uint8
	MsgID        uint32
	Payloads     []Payload
}

// Payload is a tagged union; Kind selects the member.
type Payload struct {
	Kind uint8
	// Crit asks the reference encoder to set the critical flag of the generic
	// header.  It is not part of a payload's value (Canon drops it).
	Crit bool `json:",omitempty"`

	SA     *SA     `json:",omitempty"`
	KE     *KE     `json:",omitempty"`
	ID     *ID     `json:",omitempty"` // IDi, IDr
	Cert   *Cert   `json:",omitempty"` // CERT, CERTREQ
	Auth   *Auth   `json:",omitempty"`
	Data   HB      `json:",omitempty"` // Nonce, Vendor
	Notify *Notify `json:",omitempty"`
	Delete *Delete `json:",omitempty"`
	TS     *TS     `json:",omitempty"` // TSi, TSr
	CP     *CP     `json:",omitempty"`
	EAP    *EAP    `json:",omitempty"`
	SK     *SK     `json:",omitempty"`
}

type SA struct{ Proposals []Proposal }

type Proposal struct {
	Num, Proto uint8
	SPI        HB
	// Transforms in wire order.  The library files them by type into five
	// lists; equality is therefore defined on the per-type sub-sequences
	// (see Canon).
	Transforms []Transform
}

type Transform struct {
	Type      uint8
	ID        uint16
	HasAttr   bool
	TV        bool   // attribute format: true = type/value (AF=1), false = TLV
	AttrType  uint16 // 15 bit
	AttrVal   uint16 // TV only
	AttrBytes HB     // TLV only
}

type KE struct {
	Group uint16
	Data  HB
}
type ID struct {
	Type uint8
	Data HB
}
type Cert struct {
	Enc  uint8
	Data HB
}
type Auth struct {
	Method uint8
	Data   HB
}
type Notify struct {
	Proto uint8
	Type  uint16
	SPI   HB
	Data  HB
}
type Delete struct {
	Proto   uint8
	SPISize uint8
	Num     uint16
	SPIs    []uint32
}
type TS struct{ Sel []Selector }
type Selector struct {
	Type, Proto        uint8
	StartPort, EndPort uint16
	StartAddr, EndAddr HB
}
type CP struct {
	Type  uint8
	Attrs []CPAttr
}
type CPAttr struct {
	Type  uint16
	Value HB
}
type SK struct {
	Next uint8
	Data HB
}

// EAP packet.  Method == nil means no type-data (Success/Failure style, 4 octets).
type EAP struct {
	Code   uint8
	ID     uint8
	Method *Method `json:",omitempty"`
}

// EAP method type codes (RFC 3748 / RFC 5448)
const (
	MIdentity     = 1
	MNotification = 2
	MNak          = 3
	MAkaPrime     = 50
	MExpanded     = 254
)

type Method struct {
	Type       uint8
	Data       HB     `json:",omitempty"` // Identity / Notification / Nak
	VendorID   uint32 `json:",omitempty"` // Expanded
	VendorType uint32 `json:",omitempty"`
	VendorData HB     `json:",omitempty"`
	AKA        *AKA   `json:",omitempty"`
}

// EAP-AKA' attribute type codes (RFC 4187 section 11, RFC 5448)
const (
	ATRand      = 1
	ATAutn      = 2
	ATRes       = 3
	ATMac       = 11
	ATKdfInput  = 23
	ATKdf       = 24
	ATCheckcode = 134
)

type AKA struct {
	Subtype uint8
	Attrs   []AKAAttr // what the API reports: ascending type; wire order for reference-built packets
}
type AKAAttr struct {
	Type  uint8
	Value HB
}

// ---------------------------------------------------------------------------
// canonical form, equality, fingerprints

// Canon returns a deep copy in canonical form: empty byte strings are nil-free
// empty, transforms stably sorted by transform type (the library's grouping),
// EAP-AKA' attributes sorted by type.
func (m *Msg) Canon() *Msg {
	if m == nil {
		return nil
	}
	c := *m
	c.Payloads = make([]Payload, len(m.Payloads))
	for i := range m.Payloads {
		c.Payloads[i] = m.Payloads[i].Canon()
	}
	return &c
}

func nb(b HB) HB {
	o := make(HB, len(b))
	copy(o, b)
	return o
}

func (p Payload) Canon() Payload {
	c := Payload{Kind: p.Kind}
	switch {
	case p.SA != nil:
		sa := &SA{}
		for _, pr := range p.SA.Proposals {
			np := Proposal{Num: pr.Num, Proto: pr.Proto, SPI: nb(pr.SPI)}
			for _, t := range pr.Transforms {
				nt := t
				nt.AttrBytes = nb(t.AttrBytes)
				np.Transforms = append(np.Transforms, nt)
			}
			sort.SliceStable(np.Transforms, func(i, j int) bool { return np.Transforms[i].Type < np.Transforms[j].Type })
			sa.Proposals = append(sa.Proposals, np)
		}
		c.SA = sa
	case p.KE != nil:
		c.KE = &KE{p.KE.Group, nb(p.KE.Data)}
	case p.ID != nil:
		c.ID = &ID{p.ID.Type, nb(p.ID.Data)}
	case p.Cert != nil:
		c.Cert = &Cert{p.Cert.Enc, nb(p.Cert.Data)}
	case p.Auth != nil:
		c.Auth = &Auth{p.Auth.Method, nb(p.Auth.Data)}
	case p.Notify != nil:
		c.Notify = &Notify{p.Notify.Proto, p.Notify.Type, nb(p.Notify.SPI), nb(p.Notify.Data)}
	case p.Delete != nil:
		d := &Delete{Proto: p.Delete.Proto, SPISize: p.Delete.SPISize, Num: p.Delete.Num}
		d.SPIs = append([]uint32{}, p.Delete.SPIs...)
		c.Delete = d
	case p.TS != nil:
		ts := &TS{}
		for _, s := range p.TS.Sel {
			ns := s
			ns.StartAddr, ns.EndAddr = nb(s.StartAddr), nb(s.EndAddr)
			ts.Sel = append(ts.Sel, ns)
		}
		c.TS = ts
	case p.CP != nil:
		cp := &CP{Type: p.CP.Type}
		for _, a := range p.CP.Attrs {
			cp.Attrs = append(cp.Attrs, CPAttr{a.Type, nb(a.Value)})
		}
		c.CP = cp
	case p.EAP != nil:
		c.EAP = p.EAP.Canon()
	case p.SK != nil:
		c.SK = &SK{p.SK.Next, nb(p.SK.Data)}
	default:
		c.Data = nb(p.Data)
	}
	if c.SA == nil && c.KE == nil && c.ID == nil && c.Cert == nil && c.Auth == nil && c.Notify == nil &&
		c.Delete == nil && c.TS == nil && c.CP == nil && c.EAP == nil && c.SK == nil {
		c.Data = nb(p.Data)
	}
	return c
}

func (e *EAP) Canon() *EAP {
	if e == nil {
		return nil
	}
	c := &EAP{Code: e.Code, ID: e.ID}
	if e.Method != nil {
		m := &Method{Type: e.Method.Type, Data: nb(e.Method.Data), VendorID: e.Method.VendorID,
			VendorType: e.Method.VendorType, VendorData: nb(e.Method.VendorData)}
		if e.Method.AKA != nil {
			a := &AKA{Subtype: e.Method.AKA.Subtype}
			for _, at := range e.Method.AKA.Attrs {
				a.Attrs = append(a.Attrs, AKAAttr{at.Type, nb(at.Value)})
			}
			sort.SliceStable(a.Attrs, func(i, j int) bool { return a.Attrs[i].Type < a.Attrs[j].Type })
			m.AKA = a
		}
		c.Method = m
	}
	return c
}

// JSON renders the canonical form.
func (m *Msg) JSON() string {
	b, _ := json.Marshal(m.Canon())
	return string(b)
}
func (e *EAP) JSON() string {
	b, _ := json.Marshal(e.Canon())
	return string(b)
}
func (p Payload) JSON() string {
	b, _ := json.Marshal(p.Canon())
	return string(b)
}

func Equal(a, b *Msg) bool       { return a.JSON() == b.JSON() }
func EqualEAP(a, b *EAP) bool    { return a.JSON() == b.JSON() }
func EqualPayloads(a, b []Payload) bool {
	if len(a) != len(b) {
		return false
	}
	for i := range a {
		if a[i].JSON() != b[i].JSON() {
			return false
		}
	}
	return true
}

// Diff gives a short human-readable location of the first difference.
func Diff(a, b *Msg) string {
	ca, cb := a.Canon(), b.Canon()
	ha, hb := *ca, *cb
	ha.Payloads, hb.Payloads = nil, nil
	ja, _ := json.Marshal(ha)
	jb, _ := json.Marshal(hb)
	if string(ja) != string(jb) {
		return fmt.Sprintf("header: %s != %s", ja, jb)
	}
	if len(ca.Payloads) != len(cb.Payloads) {
		return fmt.Sprintf("payload count %d != %d (%s vs %s)", len(ca.Payloads), len(cb.Payloads), Kinds(ca), Kinds(cb))
	}
	for i := range ca.Payloads {
		x, y := ca.Payloads[i].JSON(), cb.Payloads[i].JSON()
		if x != y {
			return fmt.Sprintf("payload[%d]: %s != %s", i, clip(x, 600), clip(y, 600))
		}
	}
	return ""
}

func clip(s string, n int) string {
	if len(s) > n {
		return s[:n] + "..."
	}
	return s
}

func Kinds(m *Msg) string {
	var s []string
	for _, p := range m.Payloads {
		if n, ok := KindName[p.Kind]; ok {
			s = append(s, n)
		} else {
			s = append(s, fmt.Sprintf("T%d", p.Kind))
		}
	}
	return strings.Join(s, ",")
}

func bucket(n int) string {
	switch {
	case n == 0:
		return "0"
	case n == 1:
		return "1"
	case n < 4:
		return "2-3"
	case n < 16:
		return "4-15"
	case n < 256:
		return "16-255"
	case n < 4096:
		return "256-4k"
	default:
		return "4k+"
	}
}

// Shape is a structural signature of a payload: kind plus counts / boundary
// classes, without the data values.  Used to count distinct cases.
func (p Payload) Shape() string {
	k := KindName[p.Kind]
	if k == "" {
		k = fmt.Sprintf("T%d", p.Kind)
	}
	switch {
	case p.SA != nil:
		var parts []string
		for _, pr := range p.SA.Proposals {
			per := map[uint8]int{}
			feat := map[string]bool{}
			for _, t := range pr.Transforms {
				per[t.Type]++
				if t.HasAttr {
					if t.TV {
						feat["tv"] = true
					} else {
						feat["tlv"+bucket(len(t.AttrBytes))] = true
					}
					if t.AttrType >= 128 {
						feat["at128+"] = true
					}
				}
			}
			var fs []string
			for f := range feat {
				fs = append(fs, f)
			}
			sort.Strings(fs)
			parts = append(parts, fmt.Sprintf("spi%s/t%d.%d.%d.%d.%d/%s", bucket(len(pr.SPI)), per[1], per[2], per[3], per[4], per[5], strings.Join(fs, "+")))
		}
		return k + "[" + strings.Join(parts, ";") + "]"
	case p.KE != nil:
		return k + bucket(len(p.KE.Data))
	case p.ID != nil:
		return k + bucket(len(p.ID.Data))
	case p.Cert != nil:
		return k + bucket(len(p.Cert.Data))
	case p.Auth != nil:
		return k + bucket(len(p.Auth.Data))
	case p.Notify != nil:
		return fmt.Sprintf("%sspi%s/d%s", k, bucket(len(p.Notify.SPI)), bucket(len(p.Notify.Data)))
	case p.Delete != nil:
		return fmt.Sprintf("%ss%d/n%s", k, p.Delete.SPISize, bucket(len(p.Delete.SPIs)))
	case p.TS != nil:
		n4, n6 := 0, 0
		for _, s := range p.TS.Sel {
			if s.Type == 7 {
				n4++
			} else {
				n6++
			}
		}
		return fmt.Sprintf("%sv4:%s/v6:%s", k, bucket(n4), bucket(n6))
	case p.CP != nil:
		mx := 0
		for _, a := range p.CP.Attrs {
			if len(a.Value) > mx {
				mx = len(a.Value)
			}
		}
		return fmt.Sprintf("%sn%s/max%s", k, bucket(len(p.CP.Attrs)), bucket(mx))
	case p.EAP != nil:
		return k + "(" + p.EAP.Shape() + ")"
	case p.SK != nil:
		return fmt.Sprintf("%s%s", k, bucket(len(p.SK.Data)))
	}
	return k + bucket(len(p.Data))
}

func (e *EAP) Shape() string {
	if e.Method == nil {
		return fmt.Sprintf("c%d", e.Code)
	}
	m := e.Method
	switch {
	case m.AKA != nil:
		var ts []string
		for _, a := range m.AKA.Attrs {
			ts = append(ts, fmt.Sprintf("%d:%d", a.Type, len(a.Value)%4))
		}
		return fmt.Sprintf("c%d/aka[%s]", e.Code, strings.Join(ts, ","))
	case m.Type == MExpanded:
		return fmt.Sprintf("c%d/exp%s", e.Code, bucket(len(m.VendorData)))
	}
	return fmt.Sprintf("c%d/m%d/%s", e.Code, m.Type, bucket(len(m.Data)))
}

func (m *Msg) Shape() string {
	var s []string
	for _, p := range m.Payloads {
		s = append(s, p.Shape())
	}
	return strings.Join(s, "|")
}

func Hash64(s string) uint64 {
	h := fnv.New64a()
	h.Write([]byte(s))
	return h.Sum64()
}
