// Package fuzz holds the native Go fuzz targets of the thorough tier (C04, C12).
// The coverage-guided fuzzer is only an input source; the verdict is the same
// monitor the property's families use. Its schedule is not seed-reproducible;
// every failing input is written out as a concrete (reproducible) file.
package fuzz

import (
	"testing"

	"verifharness/core"
	"verifharness/props"
	"verifharness/ref"
)

func run(t *testing.T, prop string, b []byte, f func(k *core.Case, b []byte)) {
	c := core.NewCtx(prop, "thorough", 0, 0, 1)
	k := &core.Case{Ctx: c, Family: "fuzz", Index: 0, R: core.NewRng(uint64(len(b)))}
	f(k, b)
	if r := c.Result(); len(r.Violations) > 0 {
		v := r.Violations[0]
		t.Fatalf("VIOLATION property=%s kind=%s class=%s detail=%s", prop, v.Kind, v.Class, v.Detail)
	}
}

func seed(f *testing.F) {
	if err := ref.SelfCheck(); err != nil {
		f.Skip("reference self-check failed: " + err.Error())
	}
	for _, s := range props.FuzzSeeds(150) {
		f.Add(s)
	}
}

func FuzzC04(f *testing.F) {
	seed(f)
	f.Fuzz(func(t *testing.T, b []byte) {
		if len(b) > 70000 {
			return
		}
		run(t, "C04", b, props.FuzzC04)
	})
}

func FuzzC12(f *testing.F) {
	seed(f)
	f.Fuzz(func(t *testing.T, b []byte) {
		if len(b) > 70000 {
			return
		}
		run(t, "C12", b, props.FuzzC12)
	})
}
