// Package bridge converts between the abstract model (package abs) and the
// library's own objects, using only the exported API of free5gc/ike.
package bridge

import (
	"fmt"
	"sync/atomic"

	"github.com/free5gc/ike/eap"
	"github.com/free5gc/ike/message"

	"verifharness/abs"
)

func cp(b []byte) []byte {
	if len(b) == 0 {
		return nil
	}
	o := make([]byte, len(b))
	copy(o, b)
	return o
}

// Memory layouts of the objects handed to the library.  A caller may legitimately keep all byte fields of a
// message in one buffer and all transforms of an SA in one pool: the library may read them, but what it emits
// must not depend on where they live.  Layout is chosen per built object from its content, so that a case is
// reproducible; LayoutForce (>= 0) pins it (tests of the harness itself).
const (
	LayoutPrivate = iota // every field its own exact-capacity allocation
	LayoutArena          // all byte fields are consecutive views of ONE array (capacity runs into the next field);
	//                      transform lists of an SA are views of ONE pool grouped by transform type
	LayoutSpare //          every slice has private spare capacity filled with a marker
	nLayouts
)

var LayoutForce = -1

type arena struct {
	keep bool
	kept [][]byte
	mode int
	buf  []byte
	tp   map[uint8][]*message.Transform // per transform type pool (LayoutArena)
	// equal transforms of one built object are ONE *Transform (LayoutArena)
	interned map[string]*message.Transform
}

func newArena(mode int, size int) *arena {
	a := &arena{mode: mode % nLayouts}
	if LayoutForce >= 0 {
		a.mode = LayoutForce
	}
	if a.mode == LayoutArena {
		a.buf = make([]byte, 0, size+16)
		a.tp = map[uint8][]*message.Transform{}
		a.interned = map[string]*message.Transform{}
	}
	return a
}

func (a *arena) bytes(b []byte) []byte {
	o := a.bytes0(b)
	if a.keep && len(o) > 0 {
		a.kept = append(a.kept, o)
	}
	return o
}

func (a *arena) bytes0(b []byte) []byte {
	if len(b) == 0 {
		return nil
	}
	switch a.mode {
	case LayoutArena:
		if cap(a.buf)-len(a.buf) < len(b) { // size estimate too small: fall back (keeps earlier views valid)
			return cp(b)
		}
		off := len(a.buf)
		a.buf = append(a.buf, b...)
		return a.buf[off : off+len(b)] // capacity deliberately reaches into the fields that follow
	case LayoutSpare:
		o := make([]byte, len(b), len(b)+8)
		copy(o, b)
		sp := o[len(b):cap(o)]
		for i := range sp {
			sp[i] = 0xEE
		}
		return o
	}
	return cp(b)
}

func absSize(ps []abs.Payload) int {
	n := 0
	for _, p := range ps {
		n += len(p.Data)
		switch {
		case p.SA != nil:
			for _, pr := range p.SA.Proposals {
				n += len(pr.SPI)
				for _, t := range pr.Transforms {
					n += len(t.AttrBytes)
				}
			}
		case p.KE != nil:
			n += len(p.KE.Data)
		case p.ID != nil:
			n += len(p.ID.Data)
		case p.Cert != nil:
			n += len(p.Cert.Data)
		case p.Auth != nil:
			n += len(p.Auth.Data)
		case p.Notify != nil:
			n += len(p.Notify.SPI) + len(p.Notify.Data)
		case p.TS != nil:
			for _, s := range p.TS.Sel {
				n += len(s.StartAddr) + len(s.EndAddr)
			}
		case p.CP != nil:
			for _, at := range p.CP.Attrs {
				n += len(at.Value)
			}
		case p.SK != nil:
			n += len(p.SK.Data)
		case p.EAP != nil && p.EAP.Method != nil:
			n += len(p.EAP.Method.Data) + len(p.EAP.Method.VendorData)
		}
	}
	return n
}

func layoutOf(ps []abs.Payload) int {
	h := len(ps)
	for _, p := range ps {
		h = h*31 + int(p.Kind)
	}
	h += absSize(ps)
	return h % nLayouts
}

// BuildMsg makes library objects from an abstract message through exported
// struct fields (EAP-AKA' through NewEapAkaPrime + SetAttr).
func BuildMsg(m *abs.Msg) (*message.IKEMessage, error) {
	pl, err := buildPayloads(m.Payloads, newArena(layoutOf(m.Payloads)+int(m.MsgID%3), absSize(m.Payloads)))
	if err != nil {
		return nil, err
	}
	return &message.IKEMessage{
		IKEHeader: &message.IKEHeader{
			InitiatorSPI: m.ISPI, ResponderSPI: m.RSPI, MajorVersion: m.Major, MinorVersion: m.Minor,
			ExchangeType: m.Exch, Flags: m.Flags, MessageID: m.MsgID,
		},
		Payloads: pl,
	}, nil
}

// BuildPayloadsIn lays all byte fields of the payloads out inside buf (consecutive views, in payload order), as an
// application does that answers with views of a datagram it received (echoed cookies, vendor ids, nonces) without
// copying them first.  buf must have room (Size(ps)); its length is ignored.
func BuildPayloadsIn(ps []abs.Payload, buf []byte) (message.IKEPayloadContainer, error) {
	a := &arena{mode: LayoutArena, buf: buf[:0], tp: map[uint8][]*message.Transform{}}
	return buildPayloads(ps, a)
}

// Size is the number of octets BuildPayloadsIn needs.
func Size(ps []abs.Payload) int { return absSize(ps) }

func BuildPayloads(ps []abs.Payload) (message.IKEPayloadContainer, error) {
	return buildPayloads(ps, newArena(layoutOf(ps), absSize(ps)))
}

func buildPayloads(ps []abs.Payload, a *arena) (message.IKEPayloadContainer, error) {
	var c message.IKEPayloadContainer
	if a.mode != LayoutPrivate {
		c = make(message.IKEPayloadContainer, 0, len(ps)+3)
	}
	for _, p := range ps {
		lp, err := buildPayload(p, a)
		if err != nil {
			return nil, err
		}
		c = append(c, lp)
	}
	return c, nil
}

func BuildTransform(t abs.Transform) *message.Transform {
	return buildTransform(t, newArena(LayoutPrivate, 0))
}

func buildTransform(t abs.Transform, a *arena) *message.Transform {
	// LayoutArena: a caller that keeps its offered transforms in a table hands the SAME object to every proposal (and
	// list position) that offers this transform
	var key string
	if a.mode == LayoutArena && a.interned != nil {
		key = fmt.Sprintf("%d/%d/%v/%v/%d/%d/%x", t.Type, t.ID, t.HasAttr, t.TV, t.AttrType, t.AttrVal, t.AttrBytes)
		if lt, ok := a.interned[key]; ok {
			atomic.AddInt64(&SharedTransformObjects, 1)
			return lt
		}
	}
	lt := buildTransform0(t, a)
	if key != "" {
		a.interned[key] = lt
	}
	return lt
}

// SharedTransformObjects counts transforms handed to the library as an object that is referenced more than once.
var SharedTransformObjects int64

func buildTransform0(t abs.Transform, a *arena) *message.Transform {
	lt := &message.Transform{TransformType: t.Type, TransformID: t.ID}
	if t.HasAttr {
		lt.AttributePresent = true
		lt.AttributeType = t.AttrType
		if t.TV {
			lt.AttributeFormat = 1
			lt.AttributeValue = t.AttrVal
		} else {
			lt.AttributeFormat = 0
			lt.VariableLengthAttributeValue = a.bytes(t.AttrBytes)
		}
	}
	return lt
}

func BuildProposal(pr abs.Proposal) *message.Proposal {
	return buildProposal(pr, newArena(LayoutPrivate, 0))
}

func buildProposal(pr abs.Proposal, a *arena) *message.Proposal {
	lp := &message.Proposal{ProposalNumber: pr.Num, ProtocolID: pr.Proto, SPI: a.bytes(pr.SPI)}
	for _, t := range pr.Transforms {
		lt := buildTransform(t, a)
		switch t.Type {
		case 1:
			lp.EncryptionAlgorithm = append(lp.EncryptionAlgorithm, lt)
		case 2:
			lp.PseudorandomFunction = append(lp.PseudorandomFunction, lt)
		case 3:
			lp.IntegrityAlgorithm = append(lp.IntegrityAlgorithm, lt)
		case 4:
			lp.DiffieHellmanGroup = append(lp.DiffieHellmanGroup, lt)
		case 5:
			lp.ExtendedSequenceNumbers = append(lp.ExtendedSequenceNumbers, lt)
		}
	}
	return lp
}

// poolSA re-homes the transform lists of all proposals of one SA: in LayoutArena one pool per transform type
// (the lists of proposal 1, 2, 3 ... are consecutive views, each with capacity reaching into the next); in
// LayoutSpare every list gets spare capacity holding a marker transform that is NOT part of the proposal.
func poolSA(sa *message.SecurityAssociation, a *arena) {
	if a.mode == LayoutPrivate {
		return
	}
	lists := func(p *message.Proposal) []*message.TransformContainer {
		return []*message.TransformContainer{&p.EncryptionAlgorithm, &p.PseudorandomFunction, &p.IntegrityAlgorithm,
			&p.DiffieHellmanGroup, &p.ExtendedSequenceNumbers}
	}
	if a.mode == LayoutSpare {
		for _, p := range sa.Proposals {
			for _, l := range lists(p) {
				if len(*l) == 0 {
					continue
				}
				n := make(message.TransformContainer, len(*l), len(*l)+2)
				copy(n, *l)
				sp := n[len(n):cap(n)]
				for i := range sp {
					sp[i] = &message.Transform{TransformType: 0xEE, TransformID: 0xEEEE}
				}
				*l = n
			}
		}
		return
	}
	for ti := 0; ti < 5; ti++ {
		total := 0
		for _, p := range sa.Proposals {
			total += len(*lists(p)[ti])
		}
		if total == 0 {
			continue
		}
		pool := make(message.TransformContainer, 0, total)
		for _, p := range sa.Proposals {
			l := lists(p)[ti]
			if len(*l) == 0 {
				continue
			}
			off := len(pool)
			pool = append(pool, *l...)
			*l = pool[off : off+len(*l)] // capacity reaches into the next proposal's list
		}
	}
}

func BuildPayload(p abs.Payload) (message.IKEPayload, error) {
	one := []abs.Payload{p}
	return buildPayload(p, newArena(layoutOf(one), absSize(one)))
}

func buildPayload(p abs.Payload, a *arena) (message.IKEPayload, error) {
	cp := a.bytes
	switch p.Kind {
	case abs.PSA:
		sa := &message.SecurityAssociation{}
		if a.mode != LayoutPrivate {
			sa.Proposals = make(message.ProposalContainer, 0, len(p.SA.Proposals)+2)
		}
		for _, pr := range p.SA.Proposals {
			sa.Proposals = append(sa.Proposals, buildProposal(pr, a))
		}
		poolSA(sa, a)
		return sa, nil
	case abs.PKE:
		return &message.KeyExchange{DiffieHellmanGroup: p.KE.Group, KeyExchangeData: cp(p.KE.Data)}, nil
	case abs.PIDi:
		return &message.IdentificationInitiator{IDType: p.ID.Type, IDData: cp(p.ID.Data)}, nil
	case abs.PIDr:
		return &message.IdentificationResponder{IDType: p.ID.Type, IDData: cp(p.ID.Data)}, nil
	case abs.PCERT:
		return &message.Certificate{CertificateEncoding: p.Cert.Enc, CertificateData: cp(p.Cert.Data)}, nil
	case abs.PCERTREQ:
		return &message.CertificateRequest{CertificateEncoding: p.Cert.Enc, CertificationAuthority: cp(p.Cert.Data)}, nil
	case abs.PAUTH:
		return &message.Authentication{AuthenticationMethod: p.Auth.Method, AuthenticationData: cp(p.Auth.Data)}, nil
	case abs.PNonce:
		return &message.Nonce{NonceData: cp(p.Data)}, nil
	case abs.PNotify:
		return &message.Notification{ProtocolID: p.Notify.Proto, NotifyMessageType: p.Notify.Type,
			SPI: cp(p.Notify.SPI), NotificationData: cp(p.Notify.Data)}, nil
	case abs.PDelete:
		d := &message.Delete{ProtocolID: p.Delete.Proto, SPISize: p.Delete.SPISize, NumberOfSPI: p.Delete.Num}
		if a.mode != LayoutPrivate && len(p.Delete.SPIs) > 0 {
			d.SPIs = make([]uint32, 0, len(p.Delete.SPIs)+2)
		}
		d.SPIs = append(d.SPIs, p.Delete.SPIs...)
		return d, nil
	case abs.PVendor:
		return &message.VendorID{VendorIDData: cp(p.Data)}, nil
	case abs.PTSi, abs.PTSr:
		var sel message.IndividualTrafficSelectorContainer
		if a.mode != LayoutPrivate {
			sel = make(message.IndividualTrafficSelectorContainer, 0, len(p.TS.Sel)+2)
		}
		for _, s := range p.TS.Sel {
			sel = append(sel, &message.IndividualTrafficSelector{TSType: s.Type, IPProtocolID: s.Proto,
				StartPort: s.StartPort, EndPort: s.EndPort, StartAddress: cp(s.StartAddr), EndAddress: cp(s.EndAddr)})
		}
		if p.Kind == abs.PTSi {
			return &message.TrafficSelectorInitiator{TrafficSelectors: sel}, nil
		}
		return &message.TrafficSelectorResponder{TrafficSelectors: sel}, nil
	case abs.PCP:
		c := &message.Configuration{ConfigurationType: p.CP.Type}
		if a.mode != LayoutPrivate {
			c.ConfigurationAttribute = make(message.ConfigurationAttributeContainer, 0, len(p.CP.Attrs)+2)
		}
		for _, at := range p.CP.Attrs {
			c.ConfigurationAttribute = append(c.ConfigurationAttribute,
				&message.IndividualConfigurationAttribute{Type: at.Type, Value: cp(at.Value)})
		}
		return c, nil
	case abs.PEAP:
		e, err := buildEAP(p.EAP, a)
		if err != nil {
			return nil, err
		}
		return &message.PayloadEap{EAP: e}, nil
	case abs.PSK:
		return &message.Encrypted{NextPayload: p.SK.Next, EncryptedData: cp(p.SK.Data)}, nil
	}
	return nil, fmt.Errorf("bridge: cannot build payload kind %d", p.Kind)
}

func BuildEAP(e *abs.EAP) (*eap.EAP, error) {
	return buildEAP(e, newArena(LayoutPrivate, 0))
}

// BuildEAPKeepingBuffers also returns the very slices that were handed to the setters (the caller's buffers).
func BuildEAPKeepingBuffers(e *abs.EAP) (*eap.EAP, [][]byte, error) {
	a := newArena(LayoutPrivate, 0)
	a.keep = true
	le, err := buildEAP(e, a)
	return le, a.kept, err
}

func buildEAP(e *abs.EAP, a *arena) (*eap.EAP, error) {
	cp := a.bytes
	le := &eap.EAP{Code: eap.EapCode(e.Code), Identifier: e.ID}
	if e.Method == nil {
		return le, nil
	}
	m := e.Method
	switch m.Type {
	case abs.MIdentity:
		le.EapTypeData = &eap.EapIdentity{IdentityData: cp(m.Data)}
	case abs.MNotification:
		le.EapTypeData = &eap.EapNotification{NotificationData: cp(m.Data)}
	case abs.MNak:
		le.EapTypeData = &eap.EapNak{NakData: cp(m.Data)}
	case abs.MExpanded:
		le.EapTypeData = &eap.EapExpanded{VendorID: m.VendorID, VendorType: m.VendorType, VendorData: cp(m.VendorData)}
	case abs.MAkaPrime:
		ak := eap.NewEapAkaPrime(eap.EapAkaSubtype(m.AKA.Subtype))
		if (len(m.AKA.Attrs)+int(e.ID))%3 == 1 {
			// the object has refused setter calls in its past (values of a size the setter does not accept, attribute
			// kinds it does not support) for kinds that are NOT part of the packet: they must leave no trace
			present := map[uint8]bool{}
			for _, at := range m.AKA.Attrs {
				present[at.Type] = true
			}
			for _, bad := range []struct {
				t uint8
				n int
			}{{abs.ATRand, 15}, {abs.ATAutn, 17}, {abs.ATMac, 0}, {abs.ATKdf, 3}, {abs.ATRes, 3}, {abs.ATRes, 17}, {4 /* AT_AUTS */, 14}} {
				if !present[bad.t] {
					if err := ak.SetAttr(eap.EapAkaPrimeAttrType(bad.t), make([]byte, bad.n)); err == nil {
						// accepted after all (an attribute kind the setter supports with this size): take it out of the way
						return nil, fmt.Errorf("bridge: SetAttr(%d, %d octets) unexpectedly accepted", bad.t, bad.n)
					}
				}
			}
		}
		for _, at := range m.AKA.Attrs {
			v := cp(at.Value)
			if v == nil {
				v = []byte{}
			}
			if err := ak.SetAttr(eap.EapAkaPrimeAttrType(at.Type), v); err != nil {
				return nil, fmt.Errorf("bridge: SetAttr(%d, %d octets): %v", at.Type, len(at.Value), err)
			}
		}
		le.EapTypeData = ak
	default:
		return nil, fmt.Errorf("bridge: cannot build EAP method %d", m.Type)
	}
	return le, nil
}

// ---------------------------------------------------------------------------

func ObserveMsg(m *message.IKEMessage) *abs.Msg {
	o := &abs.Msg{}
	if m.IKEHeader != nil {
		h := m.IKEHeader
		o.ISPI, o.RSPI, o.Major, o.Minor, o.Exch, o.Flags, o.MsgID =
			h.InitiatorSPI, h.ResponderSPI, h.MajorVersion, h.MinorVersion, h.ExchangeType, h.Flags, h.MessageID
	}
	o.Payloads = ObservePayloads(m.Payloads)
	return o
}

func ObservePayloads(c message.IKEPayloadContainer) []abs.Payload {
	var out []abs.Payload
	for _, p := range c {
		out = append(out, ObservePayload(p))
	}
	return out
}

func ObserveTransform(t *message.Transform) abs.Transform {
	at := abs.Transform{Type: t.TransformType, ID: t.TransformID}
	if t.AttributePresent {
		at.HasAttr = true
		at.AttrType = t.AttributeType
		at.TV = t.AttributeFormat != 0
		at.AttrVal = t.AttributeValue
		at.AttrBytes = cp(t.VariableLengthAttributeValue)
	} else {
		// fields that must be zero when no attribute is present are still
		// observed so that junk in them is visible
		at.AttrType = t.AttributeType
		at.AttrVal = t.AttributeValue
		at.AttrBytes = cp(t.VariableLengthAttributeValue)
		at.TV = t.AttributeFormat != 0
	}
	return at
}

func ObserveProposal(pr *message.Proposal) abs.Proposal {
	ap := abs.Proposal{Num: pr.ProposalNumber, Proto: pr.ProtocolID, SPI: cp(pr.SPI)}
	for _, l := range []message.TransformContainer{pr.EncryptionAlgorithm, pr.PseudorandomFunction,
		pr.IntegrityAlgorithm, pr.DiffieHellmanGroup, pr.ExtendedSequenceNumbers} {
		for _, t := range l {
			ap.Transforms = append(ap.Transforms, ObserveTransform(t))
		}
	}
	return ap
}

func ObservePayload(p message.IKEPayload) abs.Payload {
	switch v := p.(type) {
	case *message.SecurityAssociation:
		sa := &abs.SA{}
		for _, pr := range v.Proposals {
			sa.Proposals = append(sa.Proposals, ObserveProposal(pr))
		}
		return abs.Payload{Kind: abs.PSA, SA: sa}
	case *message.KeyExchange:
		return abs.Payload{Kind: abs.PKE, KE: &abs.KE{Group: v.DiffieHellmanGroup, Data: cp(v.KeyExchangeData)}}
	case *message.IdentificationInitiator:
		return abs.Payload{Kind: abs.PIDi, ID: &abs.ID{Type: v.IDType, Data: cp(v.IDData)}}
	case *message.IdentificationResponder:
		return abs.Payload{Kind: abs.PIDr, ID: &abs.ID{Type: v.IDType, Data: cp(v.IDData)}}
	case *message.Certificate:
		return abs.Payload{Kind: abs.PCERT, Cert: &abs.Cert{Enc: v.CertificateEncoding, Data: cp(v.CertificateData)}}
	case *message.CertificateRequest:
		return abs.Payload{Kind: abs.PCERTREQ, Cert: &abs.Cert{Enc: v.CertificateEncoding, Data: cp(v.CertificationAuthority)}}
	case *message.Authentication:
		return abs.Payload{Kind: abs.PAUTH, Auth: &abs.Auth{Method: v.AuthenticationMethod, Data: cp(v.AuthenticationData)}}
	case *message.Nonce:
		return abs.Payload{Kind: abs.PNonce, Data: cp(v.NonceData)}
	case *message.Notification:
		return abs.Payload{Kind: abs.PNotify, Notify: &abs.Notify{Proto: v.ProtocolID, Type: v.NotifyMessageType,
			SPI: cp(v.SPI), Data: cp(v.NotificationData)}}
	case *message.Delete:
		d := &abs.Delete{Proto: v.ProtocolID, SPISize: v.SPISize, Num: v.NumberOfSPI}
		d.SPIs = append(d.SPIs, v.SPIs...)
		return abs.Payload{Kind: abs.PDelete, Delete: d}
	case *message.VendorID:
		return abs.Payload{Kind: abs.PVendor, Data: cp(v.VendorIDData)}
	case *message.TrafficSelectorInitiator:
		return abs.Payload{Kind: abs.PTSi, TS: observeTS(v.TrafficSelectors)}
	case *message.TrafficSelectorResponder:
		return abs.Payload{Kind: abs.PTSr, TS: observeTS(v.TrafficSelectors)}
	case *message.Configuration:
		c := &abs.CP{Type: v.ConfigurationType}
		for _, a := range v.ConfigurationAttribute {
			c.Attrs = append(c.Attrs, abs.CPAttr{Type: a.Type, Value: cp(a.Value)})
		}
		return abs.Payload{Kind: abs.PCP, CP: c}
	case *message.PayloadEap:
		return abs.Payload{Kind: abs.PEAP, EAP: ObserveEAP(v.EAP)}
	case *message.Encrypted:
		return abs.Payload{Kind: abs.PSK, SK: &abs.SK{Next: v.NextPayload, Data: cp(v.EncryptedData)}}
	}
	return abs.Payload{Kind: uint8(p.Type()), Data: []byte(fmt.Sprintf("unobservable %T", p))}
}

func observeTS(l message.IndividualTrafficSelectorContainer) *abs.TS {
	ts := &abs.TS{}
	for _, s := range l {
		ts.Sel = append(ts.Sel, abs.Selector{Type: s.TSType, Proto: s.IPProtocolID, StartPort: s.StartPort,
			EndPort: s.EndPort, StartAddr: cp(s.StartAddress), EndAddr: cp(s.EndAddress)})
	}
	return ts
}

func ObserveEAP(e *eap.EAP) *abs.EAP {
	if e == nil {
		return nil
	}
	o := &abs.EAP{Code: uint8(e.Code), ID: e.Identifier}
	if e.EapTypeData == nil {
		return o
	}
	switch v := e.EapTypeData.(type) {
	case *eap.EapIdentity:
		o.Method = &abs.Method{Type: abs.MIdentity, Data: cp(v.IdentityData)}
	case *eap.EapNotification:
		o.Method = &abs.Method{Type: abs.MNotification, Data: cp(v.NotificationData)}
	case *eap.EapNak:
		o.Method = &abs.Method{Type: abs.MNak, Data: cp(v.NakData)}
	case *eap.EapExpanded:
		o.Method = &abs.Method{Type: abs.MExpanded, VendorID: v.VendorID, VendorType: v.VendorType, VendorData: cp(v.VendorData)}
	case *eap.EapAkaPrime:
		o.Method = &abs.Method{Type: abs.MAkaPrime, AKA: ObserveAKA(v)}
	default:
		o.Method = &abs.Method{Type: uint8(e.EapTypeData.Type()), Data: []byte(fmt.Sprintf("unobservable %T", v))}
	}
	return o
}

// ObserveAKA asks GetAttr for all 256 attribute types so that junk attributes
// are visible.
func ObserveAKA(a *eap.EapAkaPrime) *abs.AKA {
	o := &abs.AKA{Subtype: uint8(a.SubType())}
	for t := 0; t < 256; t++ {
		at, err := a.GetAttr(eap.EapAkaPrimeAttrType(t))
		if err != nil {
			continue
		}
		o.Attrs = append(o.Attrs, abs.AKAAttr{Type: uint8(at.GetAttrType()), Value: cp(at.GetValue())})
	}
	return o
}
