// Package bridge converts between the abstract model (package abs) and the
// library's own objects, using only the exported API of free5gc/ike.
package bridge

import (
	"fmt"

	"github.com/free5gc/ike/eap"
	"github.com/free5gc/ike/message"

	"verifharness/abs"
)

func cp(b []byte) []byte {
	if len(b) == 0 {
		return nil
	}
	o := make([]byte, len(b))
	copy(o, b)
	return o
}

// BuildMsg makes library objects from an abstract message through exported
// struct fields (EAP-AKA' through NewEapAkaPrime + SetAttr).
func BuildMsg(m *abs.Msg) (*message.IKEMessage, error) {
	pl, err := BuildPayloads(m.Payloads)
	if err != nil {
		return nil, err
	}
	return &message.IKEMessage{
		IKEHeader: &message.IKEHeader{
			InitiatorSPI: m.ISPI, ResponderSPI: m.RSPI, MajorVersion: m.Major, MinorVersion: m.Minor,
			ExchangeType: m.Exch, Flags: m.Flags, MessageID: m.MsgID,
		},
		Payloads: pl,
	}, nil
}

func BuildPayloads(ps []abs.Payload) (message.IKEPayloadContainer, error) {
	var c message.IKEPayloadContainer
	for _, p := range ps {
		lp, err := BuildPayload(p)
		if err != nil {
			return nil, err
		}
		c = append(c, lp)
	}
	return c, nil
}

func BuildTransform(t abs.Transform) *message.Transform {
	lt := &message.Transform{TransformType: t.Type, TransformID: t.ID}
	if t.HasAttr {
		lt.AttributePresent = true
		lt.AttributeType = t.AttrType
		if t.TV {
			lt.AttributeFormat = 1
			lt.AttributeValue = t.AttrVal
		} else {
			lt.AttributeFormat = 0
			lt.VariableLengthAttributeValue = cp(t.AttrBytes)
		}
	}
	return lt
}

func BuildProposal(pr abs.Proposal) *message.Proposal {
	lp := &message.Proposal{ProposalNumber: pr.Num, ProtocolID: pr.Proto, SPI: cp(pr.SPI)}
	for _, t := range pr.Transforms {
		lt := BuildTransform(t)
		switch t.Type {
		case 1:
			lp.EncryptionAlgorithm = append(lp.EncryptionAlgorithm, lt)
		case 2:
			lp.PseudorandomFunction = append(lp.PseudorandomFunction, lt)
		case 3:
			lp.IntegrityAlgorithm = append(lp.IntegrityAlgorithm, lt)
		case 4:
			lp.DiffieHellmanGroup = append(lp.DiffieHellmanGroup, lt)
		case 5:
			lp.ExtendedSequenceNumbers = append(lp.ExtendedSequenceNumbers, lt)
		}
	}
	return lp
}

func BuildPayload(p abs.Payload) (message.IKEPayload, error) {
	switch p.Kind {
	case abs.PSA:
		sa := &message.SecurityAssociation{}
		for _, pr := range p.SA.Proposals {
			sa.Proposals = append(sa.Proposals, BuildProposal(pr))
		}
		return sa, nil
	case abs.PKE:
		return &message.KeyExchange{DiffieHellmanGroup: p.KE.Group, KeyExchangeData: cp(p.KE.Data)}, nil
	case abs.PIDi:
		return &message.IdentificationInitiator{IDType: p.ID.Type, IDData: cp(p.ID.Data)}, nil
	case abs.PIDr:
		return &message.IdentificationResponder{IDType: p.ID.Type, IDData: cp(p.ID.Data)}, nil
	case abs.PCERT:
		return &message.Certificate{CertificateEncoding: p.Cert.Enc, CertificateData: cp(p.Cert.Data)}, nil
	case abs.PCERTREQ:
		return &message.CertificateRequest{CertificateEncoding: p.Cert.Enc, CertificationAuthority: cp(p.Cert.Data)}, nil
	case abs.PAUTH:
		return &message.Authentication{AuthenticationMethod: p.Auth.Method, AuthenticationData: cp(p.Auth.Data)}, nil
	case abs.PNonce:
		return &message.Nonce{NonceData: cp(p.Data)}, nil
	case abs.PNotify:
		return &message.Notification{ProtocolID: p.Notify.Proto, NotifyMessageType: p.Notify.Type,
			SPI: cp(p.Notify.SPI), NotificationData: cp(p.Notify.Data)}, nil
	case abs.PDelete:
		d := &message.Delete{ProtocolID: p.Delete.Proto, SPISize: p.Delete.SPISize, NumberOfSPI: p.Delete.Num}
		d.SPIs = append(d.SPIs, p.Delete.SPIs...)
		return d, nil
	case abs.PVendor:
		return &message.VendorID{VendorIDData: cp(p.Data)}, nil
	case abs.PTSi, abs.PTSr:
		var sel message.IndividualTrafficSelectorContainer
		for _, s := range p.TS.Sel {
			sel = append(sel, &message.IndividualTrafficSelector{TSType: s.Type, IPProtocolID: s.Proto,
				StartPort: s.StartPort, EndPort: s.EndPort, StartAddress: cp(s.StartAddr), EndAddress: cp(s.EndAddr)})
		}
		if p.Kind == abs.PTSi {
			return &message.TrafficSelectorInitiator{TrafficSelectors: sel}, nil
		}
		return &message.TrafficSelectorResponder{TrafficSelectors: sel}, nil
	case abs.PCP:
		c := &message.Configuration{ConfigurationType: p.CP.Type}
		for _, a := range p.CP.Attrs {
			c.ConfigurationAttribute = append(c.ConfigurationAttribute,
				&message.IndividualConfigurationAttribute{Type: a.Type, Value: cp(a.Value)})
		}
		return c, nil
	case abs.PEAP:
		e, err := BuildEAP(p.EAP)
		if err != nil {
			return nil, err
		}
		return &message.PayloadEap{EAP: e}, nil
	case abs.PSK:
		return &message.Encrypted{NextPayload: p.SK.Next, EncryptedData: cp(p.SK.Data)}, nil
	}
	return nil, fmt.Errorf("bridge: cannot build payload kind %d", p.Kind)
}

func BuildEAP(e *abs.EAP) (*eap.EAP, error) {
	le := &eap.EAP{Code: eap.EapCode(e.Code), Identifier: e.ID}
	if e.Method == nil {
		return le, nil
	}
	m := e.Method
	switch m.Type {
	case abs.MIdentity:
		le.EapTypeData = &eap.EapIdentity{IdentityData: cp(m.Data)}
	case abs.MNotification:
		le.EapTypeData = &eap.EapNotification{NotificationData: cp(m.Data)}
	case abs.MNak:
		le.EapTypeData = &eap.EapNak{NakData: cp(m.Data)}
	case abs.MExpanded:
		le.EapTypeData = &eap.EapExpanded{VendorID: m.VendorID, VendorType: m.VendorType, VendorData: cp(m.VendorData)}
	case abs.MAkaPrime:
		a := eap.NewEapAkaPrime(eap.EapAkaSubtype(m.AKA.Subtype))
		for _, at := range m.AKA.Attrs {
			v := at.Value
			if v == nil {
				v = []byte{}
			}
			if err := a.SetAttr(eap.EapAkaPrimeAttrType(at.Type), v); err != nil {
				return nil, fmt.Errorf("bridge: SetAttr(%d, %d octets): %v", at.Type, len(at.Value), err)
			}
		}
		le.EapTypeData = a
	default:
		return nil, fmt.Errorf("bridge: cannot build EAP method %d", m.Type)
	}
	return le, nil
}

// ---------------------------------------------------------------------------

func ObserveMsg(m *message.IKEMessage) *abs.Msg {
	o := &abs.Msg{}
	if m.IKEHeader != nil {
		h := m.IKEHeader
		o.ISPI, o.RSPI, o.Major, o.Minor, o.Exch, o.Flags, o.MsgID =
			h.InitiatorSPI, h.ResponderSPI, h.MajorVersion, h.MinorVersion, h.ExchangeType, h.Flags, h.MessageID
	}
	o.Payloads = ObservePayloads(m.Payloads)
	return o
}

func ObservePayloads(c message.IKEPayloadContainer) []abs.Payload {
	var out []abs.Payload
	for _, p := range c {
		out = append(out, ObservePayload(p))
	}
	return out
}

func ObserveTransform(t *message.Transform) abs.Transform {
	at := abs.Transform{Type: t.TransformType, ID: t.TransformID}
	if t.AttributePresent {
		at.HasAttr = true
		at.AttrType = t.AttributeType
		at.TV = t.AttributeFormat != 0
		at.AttrVal = t.AttributeValue
		at.AttrBytes = cp(t.VariableLengthAttributeValue)
	} else {
		// fields that must be zero when no attribute is present are still
		// observed so that junk in them is visible
		at.AttrType = t.AttributeType
		at.AttrVal = t.AttributeValue
		at.AttrBytes = cp(t.VariableLengthAttributeValue)
		at.TV = t.AttributeFormat != 0
	}
	return at
}

func ObserveProposal(pr *message.Proposal) abs.Proposal {
	ap := abs.Proposal{Num: pr.ProposalNumber, Proto: pr.ProtocolID, SPI: cp(pr.SPI)}
	for _, l := range []message.TransformContainer{pr.EncryptionAlgorithm, pr.PseudorandomFunction,
		pr.IntegrityAlgorithm, pr.DiffieHellmanGroup, pr.ExtendedSequenceNumbers} {
		for _, t := range l {
			ap.Transforms = append(ap.Transforms, ObserveTransform(t))
		}
	}
	return ap
}

func ObservePayload(p message.IKEPayload) abs.Payload {
	switch v := p.(type) {
	case *message.SecurityAssociation:
		sa := &abs.SA{}
		for _, pr := range v.Proposals {
			sa.Proposals = append(sa.Proposals, ObserveProposal(pr))
		}
		return abs.Payload{Kind: abs.PSA, SA: sa}
	case *message.KeyExchange:
		return abs.Payload{Kind: abs.PKE, KE: &abs.KE{Group: v.DiffieHellmanGroup, Data: cp(v.KeyExchangeData)}}
	case *message.IdentificationInitiator:
		return abs.Payload{Kind: abs.PIDi, ID: &abs.ID{Type: v.IDType, Data: cp(v.IDData)}}
	case *message.IdentificationResponder:
		return abs.Payload{Kind: abs.PIDr, ID: &abs.ID{Type: v.IDType, Data: cp(v.IDData)}}
	case *message.Certificate:
		return abs.Payload{Kind: abs.PCERT, Cert: &abs.Cert{Enc: v.CertificateEncoding, Data: cp(v.CertificateData)}}
	case *message.CertificateRequest:
		return abs.Payload{Kind: abs.PCERTREQ, Cert: &abs.Cert{Enc: v.CertificateEncoding, Data: cp(v.CertificationAuthority)}}
	case *message.Authentication:
		return abs.Payload{Kind: abs.PAUTH, Auth: &abs.Auth{Method: v.AuthenticationMethod, Data: cp(v.AuthenticationData)}}
	case *message.Nonce:
		return abs.Payload{Kind: abs.PNonce, Data: cp(v.NonceData)}
	case *message.Notification:
		return abs.Payload{Kind: abs.PNotify, Notify: &abs.Notify{Proto: v.ProtocolID, Type: v.NotifyMessageType,
			SPI: cp(v.SPI), Data: cp(v.NotificationData)}}
	case *message.Delete:
		d := &abs.Delete{Proto: v.ProtocolID, SPISize: v.SPISize, Num: v.NumberOfSPI}
		d.SPIs = append(d.SPIs, v.SPIs...)
		return abs.Payload{Kind: abs.PDelete, Delete: d}
	case *message.VendorID:
		return abs.Payload{Kind: abs.PVendor, Data: cp(v.VendorIDData)}
	case *message.TrafficSelectorInitiator:
		return abs.Payload{Kind: abs.PTSi, TS: observeTS(v.TrafficSelectors)}
	case *message.TrafficSelectorResponder:
		return abs.Payload{Kind: abs.PTSr, TS: observeTS(v.TrafficSelectors)}
	case *message.Configuration:
		c := &abs.CP{Type: v.ConfigurationType}
		for _, a := range v.ConfigurationAttribute {
			c.Attrs = append(c.Attrs, abs.CPAttr{Type: a.Type, Value: cp(a.Value)})
		}
		return abs.Payload{Kind: abs.PCP, CP: c}
	case *message.PayloadEap:
		return abs.Payload{Kind: abs.PEAP, EAP: ObserveEAP(v.EAP)}
	case *message.Encrypted:
		return abs.Payload{Kind: abs.PSK, SK: &abs.SK{Next: v.NextPayload, Data: cp(v.EncryptedData)}}
	}
	return abs.Payload{Kind: uint8(p.Type()), Data: []byte(fmt.Sprintf("unobservable %T", p))}
}

func observeTS(l message.IndividualTrafficSelectorContainer) *abs.TS {
	ts := &abs.TS{}
	for _, s := range l {
		ts.Sel = append(ts.Sel, abs.Selector{Type: s.TSType, Proto: s.IPProtocolID, StartPort: s.StartPort,
			EndPort: s.EndPort, StartAddr: cp(s.StartAddress), EndAddr: cp(s.EndAddress)})
	}
	return ts
}

func ObserveEAP(e *eap.EAP) *abs.EAP {
	if e == nil {
		return nil
	}
	o := &abs.EAP{Code: uint8(e.Code), ID: e.Identifier}
	if e.EapTypeData == nil {
		return o
	}
	switch v := e.EapTypeData.(type) {
	case *eap.EapIdentity:
		o.Method = &abs.Method{Type: abs.MIdentity, Data: cp(v.IdentityData)}
	case *eap.EapNotification:
		o.Method = &abs.Method{Type: abs.MNotification, Data: cp(v.NotificationData)}
	case *eap.EapNak:
		o.Method = &abs.Method{Type: abs.MNak, Data: cp(v.NakData)}
	case *eap.EapExpanded:
		o.Method = &abs.Method{Type: abs.MExpanded, VendorID: v.VendorID, VendorType: v.VendorType, VendorData: cp(v.VendorData)}
	case *eap.EapAkaPrime:
		o.Method = &abs.Method{Type: abs.MAkaPrime, AKA: ObserveAKA(v)}
	default:
		o.Method = &abs.Method{Type: uint8(e.EapTypeData.Type()), Data: []byte(fmt.Sprintf("unobservable %T", v))}
	}
	return o
}

// ObserveAKA asks GetAttr for all 256 attribute types so that junk attributes
// are visible.
func ObserveAKA(a *eap.EapAkaPrime) *abs.AKA {
	o := &abs.AKA{Subtype: uint8(a.SubType())}
	for t := 0; t < 256; t++ {
		at, err := a.GetAttr(eap.EapAkaPrimeAttrType(t))
		if err != nil {
			continue
		}
		o.Attrs = append(o.Attrs, abs.AKAAttr{Type: uint8(at.GetAttrType()), Value: cp(at.GetValue())})
	}
	return o
}
