package core

import (
	"hash/crc32"
	"hash/crc64"
)

// Weak fingerprints a cache or a "seen before" shortcut might be keyed by.  All of these are affine over GF(2) in the
// input bits, so a second input with the same fingerprint can be COMPUTED: change anything, then solve for a few
// patch octets elsewhere (PatchToCollide).  Non-affine ones (Adler-32, FNV) are only reachable by birthday search.
type Fingerprint struct {
	Name  string
	Bits  int
	Bytes int // patch size
	F     func([]byte) uint64
}

var (
	castagnoli = crc32.MakeTable(crc32.Castagnoli)
	koopman    = crc32.MakeTable(crc32.Koopman)
	isoTab     = crc64.MakeTable(crc64.ISO)
	ecmaTab    = crc64.MakeTable(crc64.ECMA)
)

var Fingerprints = []Fingerprint{
	{"crc32-ieee", 32, 4, func(b []byte) uint64 { return uint64(crc32.ChecksumIEEE(b)) }},
	{"crc32-castagnoli", 32, 4, func(b []byte) uint64 { return uint64(crc32.Checksum(b, castagnoli)) }},
	{"crc32-koopman", 32, 4, func(b []byte) uint64 { return uint64(crc32.Checksum(b, koopman)) }},
	{"crc64-iso", 64, 8, func(b []byte) uint64 { return crc64.Checksum(b, isoTab) }},
	{"crc64-ecma", 64, 8, func(b []byte) uint64 { return crc64.Checksum(b, ecmaTab) }},
	{"xor32", 32, 4, func(b []byte) uint64 {
		var x [4]byte
		for i, c := range b {
			x[i%4] ^= c
		}
		return uint64(x[0])<<24 | uint64(x[1])<<16 | uint64(x[2])<<8 | uint64(x[3])
	}},
}

// PatchToCollide rewrites data[pos:pos+fp.Bytes] so that fp.F(data) == target.  It returns false if the system has no
// solution (cannot happen for CRCs with a full-width patch).
func PatchToCollide(data []byte, pos int, fp Fingerprint, target uint64) bool {
	nb := fp.Bytes * 8
	if pos < 0 || pos+fp.Bytes > len(data) {
		return false
	}
	for i := 0; i < fp.Bytes; i++ {
		data[pos+i] = 0
	}
	base := fp.F(data)
	// column j = effect of patch bit j on the fingerprint
	cols := make([]uint64, nb)
	for j := 0; j < nb; j++ {
		data[pos+j/8] = 1 << uint(j%8)
		cols[j] = fp.F(data) ^ base
		data[pos+j/8] = 0
	}
	want := target ^ base
	// Gaussian elimination: rows = fingerprint bits, unknowns = patch bits; keep it simple with an augmented basis
	type vec struct {
		v    uint64 // fingerprint effect
		comb [2]uint64
	}
	var basis [64]*vec
	for j := 0; j < nb; j++ {
		cur := &vec{v: cols[j]}
		cur.comb[j/64] = 1 << uint(j%64)
		for b := 63; b >= 0 && cur.v != 0; b-- {
			if cur.v>>uint(b)&1 == 0 {
				continue
			}
			if basis[b] == nil {
				basis[b] = cur
				cur = &vec{}
				break
			}
			cur.v ^= basis[b].v
			cur.comb[0] ^= basis[b].comb[0]
			cur.comb[1] ^= basis[b].comb[1]
		}
	}
	var sol [2]uint64
	for b := 63; b >= 0 && want != 0; b-- {
		if want>>uint(b)&1 == 0 {
			continue
		}
		if basis[b] == nil {
			return false
		}
		want ^= basis[b].v
		sol[0] ^= basis[b].comb[0]
		sol[1] ^= basis[b].comb[1]
	}
	for j := 0; j < nb; j++ {
		if sol[j/64]>>uint(j%64)&1 == 1 {
			data[pos+j/8] |= 1 << uint(j%8)
		}
	}
	return fp.F(data) == target
}
