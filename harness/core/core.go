// Package core is the small framework every property check runs in: seeded
// PRNG sub-streams, case families, the result recorder (evaluations, distinct
// signatures, samples, counters, violations) and panic capture.
package core

import (
	"encoding/hex"
	"encoding/json"
	"fmt"
	"os"
	"runtime"
	"sort"
	"strings"
	"sync"
	"time"

	"verifharness/abs"
)

// ---------------------------------------------------------------------------
// PRNG: splitmix64

type Rng struct {
	s uint64
	// leftover octets of the last word, used by Read only, so that Read is a proper byte stream:
	// the same octets come out however the reads are chunked
	rbuf [8]byte
	rn   int
}

func NewRng(parts ...uint64) *Rng {
	r := &Rng{s: 0x9e3779b97f4a7c15}
	for _, p := range parts {
		r.s ^= p + 0x9e3779b97f4a7c15 + (r.s << 6) + (r.s >> 2)
		r.U64()
	}
	return r
}

func (r *Rng) U64() uint64 {
	r.s += 0x9e3779b97f4a7c15
	z := r.s
	z = (z ^ (z >> 30)) * 0xbf58476d1ce4e5b9
	z = (z ^ (z >> 27)) * 0x94d049bb133111eb
	return z ^ (z >> 31)
}
func (r *Rng) Intn(n int) int {
	if n <= 0 {
		return 0
	}
	return int(r.U64() % uint64(n))
}
func (r *Rng) Range(lo, hi int) int { return lo + r.Intn(hi-lo+1) } // inclusive
func (r *Rng) Bool() bool           { return r.U64()&1 == 1 }
func (r *Rng) Chance(num, den int) bool {
	return r.Intn(den) < num
}
func (r *Rng) Byte() byte  { return byte(r.U64()) }
func (r *Rng) U16() uint16 { return uint16(r.U64()) }
func (r *Rng) U32() uint32 { return uint32(r.U64()) }
func (r *Rng) Bytes(n int) []byte {
	b := make([]byte, n)
	for i := 0; i < n; {
		v := r.U64()
		for j := 0; j < 8 && i < n; j++ {
			b[i] = byte(v)
			v >>= 8
			i++
		}
	}
	return b
}
func (r *Rng) Pick(xs ...int) int        { return xs[r.Intn(len(xs))] }
func (r *Rng) PickS(xs ...string) string { return xs[r.Intn(len(xs))] }

// Read makes *Rng an io.Reader (deterministic random source).
func (r *Rng) Read(p []byte) (int, error) {
	for i := range p {
		if r.rn == 0 {
			v := r.U64()
			for j := 0; j < 8; j++ {
				r.rbuf[j] = byte(v)
				v >>= 8
			}
			r.rn = 8
		}
		p[i] = r.rbuf[8-r.rn]
		r.rn--
	}
	return len(p), nil
}

func StrSeed(s string) uint64 { return abs.Hash64(s) }

// ---------------------------------------------------------------------------
// recorder

type Violation struct {
	Property string                 `json:"property"`
	Family   string                 `json:"family"`
	Index    int                    `json:"index"`
	Seed     int64                  `json:"seed"`
	Tier     string                 `json:"tier"`
	Kind     string                 `json:"kind"`  // short class, e.g. "panic", "mismatch"
	Class    string                 `json:"class"` // signature used for known-findings matching / dedup
	Detail   string                 `json:"detail"`
	Data     map[string]interface{} `json:"data,omitempty"`
}

type Result struct {
	Property   string            `json:"property"`
	Tier       string            `json:"tier"`
	Seed       int64             `json:"seed"`
	Shard      int               `json:"shard"`
	NShards    int               `json:"nshards"`
	Evals      int64             `json:"evals"`
	Sigs       []string          `json:"sigs"` // hex fnv64 of distinct non-trivial signatures
	Samples    []interface{}     `json:"samples"`
	Counters   map[string]int64  `json:"counters"`
	Violations []Violation       `json:"violations"`
	Notes      []string          `json:"notes"`
	Incon      []string          `json:"inconclusive"`
	Families   map[string]int64  `json:"families"`
	Info       map[string]string `json:"info"`
}

type Ctx struct {
	Prop    string
	Tier    string
	Seed    int64
	Shard   int
	NShards int
	Only    *Coord // replay: run only this case
	// Subsample > 1 runs only every Subsample-th case of each family (sanitizer builds)
	Subsample int

	mu       sync.Mutex
	evals    int64
	sigs     map[uint64]struct{}
	samples  []interface{}
	counters map[string]int64
	viol     []Violation
	violSeen map[string]int
	notes    []string
	incon    []string
	fams     map[string]int64
	info     map[string]string

	wal *os.File
}

// maxSigsPerShard bounds the memory of the distinct-signature set (the reported distinct_nontrivial is then a lower bound)
const maxSigsPerShard = 300000

type Coord struct {
	Family string
	Index  int
}

func NewCtx(prop, tier string, seed int64, shard, nshards int) *Ctx {
	return &Ctx{Prop: prop, Tier: tier, Seed: seed, Shard: shard, NShards: nshards,
		sigs: map[uint64]struct{}{}, counters: map[string]int64{}, violSeen: map[string]int{},
		fams: map[string]int64{}, info: map[string]string{}}
}

func (c *Ctx) Thorough() bool { return c.Tier == "thorough" }

// N picks the case count of a family by tier.
func (c *Ctx) N(quick, thorough int) int {
	if c.Thorough() {
		return thorough
	}
	return quick
}

func (c *Ctx) Eval(n int) {
	c.mu.Lock()
	c.evals += int64(n)
	c.mu.Unlock()
}

// Distinct records the structural signature of a non-trivial case.
func (c *Ctx) Distinct(sig string) {
	h := abs.Hash64(sig)
	c.mu.Lock()
	if len(c.sigs) < maxSigsPerShard {
		c.sigs[h] = struct{}{}
	} else if _, ok := c.sigs[h]; !ok {
		c.counters["distinct_signatures_not_recorded_beyond_per_shard_cap"]++
	}
	c.mu.Unlock()
}

func (c *Ctx) Count(key string, n int) {
	c.mu.Lock()
	c.counters[key] += int64(n)
	c.mu.Unlock()
}

// Require names counters that must be non-zero in the merged result of all
// shards; otherwise the run is inconclusive (checked by the runner).
func (c *Ctx) Require(keys ...string) {
	c.mu.Lock()
	if c.info["require"] != "" {
		c.info["require"] += "||"
	}
	c.info["require"] += strings.Join(keys, "||")
	c.mu.Unlock()
}

func (c *Ctx) Info(k, v string) {
	c.mu.Lock()
	c.info[k] = v
	c.mu.Unlock()
}

// Sample keeps up to a few example cases (first ones per shard).
func (c *Ctx) Sample(v interface{}) {
	c.mu.Lock()
	if len(c.samples) < 6 {
		c.samples = append(c.samples, v)
	}
	c.mu.Unlock()
}

func (c *Ctx) WantSample() bool {
	c.mu.Lock()
	defer c.mu.Unlock()
	return len(c.samples) < 6
}

func (c *Ctx) Note(f string, a ...interface{}) {
	c.mu.Lock()
	if len(c.notes) < 50 {
		c.notes = append(c.notes, fmt.Sprintf(f, a...))
	}
	c.mu.Unlock()
}

func (c *Ctx) Inconclusive(f string, a ...interface{}) {
	c.mu.Lock()
	c.incon = append(c.incon, fmt.Sprintf(f, a...))
	c.mu.Unlock()
}

// Case is one generated case of a family.
type Case struct {
	*Ctx
	Family string
	Index  int
	R      *Rng
}

// Violate records a violation of the property in this case.  class is a
// stable mechanism signature (no case-specific values) used to deduplicate
// and to match known findings; data carries the concrete witness.
func (k *Case) Violate(kind, class, detail string, data map[string]interface{}) {
	k.Ctx.mu.Lock()
	defer k.Ctx.mu.Unlock()
	key := kind + "|" + class
	k.Ctx.violSeen[key]++
	k.Ctx.counters["violations_total"]++
	if k.Ctx.violSeen[key] > 3 || len(k.Ctx.viol) >= 200 {
		return // keep at most 3 witnesses per class
	}
	if len(detail) > 4000 {
		detail = detail[:4000] + "..."
	}
	k.Ctx.viol = append(k.Ctx.viol, Violation{Property: k.Prop, Family: k.Family, Index: k.Index,
		Seed: k.Seed, Tier: k.Tier, Kind: kind, Class: class, Detail: detail, Data: data})
}

func Hex(b []byte) string { return hex.EncodeToString(b) }
func HexClip(b []byte, n int) string {
	if len(b) > n {
		return hex.EncodeToString(b[:n]) + fmt.Sprintf("...(%d octets)", len(b))
	}
	return hex.EncodeToString(b)
}

// Family runs fn for indices 0..n-1 that belong to this shard.
func (c *Ctx) Family(name string, n int, fn func(k *Case)) {
	run := func(i int) {
		k := &Case{Ctx: c, Family: name, Index: i,
			R: NewRng(uint64(c.Seed), StrSeed(c.Prop), StrSeed(name), uint64(i))}
		c.walWrite(name, i)
		caseBegin(name, i)
		fn(k)
		caseEnd()
	}
	if c.Only != nil {
		if c.Only.Family == name && c.Only.Index < n {
			run(c.Only.Index)
			c.mu.Lock()
			c.fams[name]++
			c.mu.Unlock()
		}
		return
	}
	cnt := int64(0)
	t0 := time.Now()
	sub := c.Subsample
	for i := 0; i < n; i++ {
		if i%c.NShards != c.Shard {
			continue
		}
		if sub > 1 && (uint64(i/c.NShards)*0x9e3779b97f4a7c15>>40)%uint64(sub) != 0 {
			continue
		}
		run(i)
		cnt++
	}
	c.mu.Lock()
	c.fams[name] += cnt
	c.counters["family_ms_"+name] += time.Since(t0).Milliseconds()
	c.mu.Unlock()
}

// write-ahead log: the coordinates of the case being executed, so that a fatal
// runtime error (which recover() never sees) is still attributed to a case.
func (c *Ctx) OpenWAL(path string) {
	f, err := os.Create(path)
	if err == nil {
		c.wal = f
	}
}
func (c *Ctx) walWrite(fam string, i int) {
	if c.wal != nil {
		c.wal.WriteAt([]byte(fmt.Sprintf("%-40s %12d\n", fam, i)), 0)
	}
}

// GlobalCount is for observations made by shared helpers that have no Case at hand (e.g. which kind of message
// object was handed to the library); merged into the counters of the child's result.
var (
	globalMu     sync.Mutex
	globalCounts = map[string]int64{}
)

func GlobalCount(key string) {
	globalMu.Lock()
	globalCounts[key]++
	globalMu.Unlock()
}

func (c *Ctx) Result() *Result {
	c.mu.Lock()
	defer c.mu.Unlock()
	globalMu.Lock()
	for k, v := range globalCounts {
		c.counters[k] += v
		delete(globalCounts, k)
	}
	globalMu.Unlock()
	r := &Result{Property: c.Prop, Tier: c.Tier, Seed: c.Seed, Shard: c.Shard, NShards: c.NShards,
		Evals: c.evals, Samples: c.samples, Counters: c.counters, Violations: c.viol, Notes: c.notes,
		Incon: c.incon, Families: c.fams, Info: c.info}
	for h := range c.sigs {
		r.Sigs = append(r.Sigs, fmt.Sprintf("%016x", h))
	}
	sort.Strings(r.Sigs)
	return r
}

func (c *Ctx) WriteResult(path string) error {
	b, err := json.Marshal(c.Result())
	if err != nil {
		return err
	}
	return os.WriteFile(path, b, 0o644)
}

// ---------------------------------------------------------------------------
// panic capture

type Panic struct {
	Value string
	Site  string // innermost frame inside free5gc/ike (function name, no line)
	Stack string
}

// Sig is the stable signature: panic text with numbers removed + site.
func (p *Panic) Sig() string {
	v := p.Value
	var b strings.Builder
	for _, ch := range v {
		if ch >= '0' && ch <= '9' {
			if s := b.String(); len(s) > 0 && s[len(s)-1] == '#' {
				continue
			}
			b.WriteByte('#')
			continue
		}
		b.WriteRune(ch)
	}
	return p.Site + ": " + b.String()
}

// Try runs f and converts a panic into a value.
func Try(f func()) (p *Panic) {
	defer func() {
		if r := recover(); r != nil {
			p = &Panic{Value: fmt.Sprint(r)}
			pcs := make([]uintptr, 64)
			n := runtime.Callers(2, pcs)
			fr := runtime.CallersFrames(pcs[:n])
			var sb strings.Builder
			for {
				f, more := fr.Next()
				if strings.Contains(f.Function, "free5gc/ike") && p.Site == "" {
					p.Site = f.Function
				}
				if sb.Len() < 3000 {
					fmt.Fprintf(&sb, "%s\n\t%s:%d\n", f.Function, f.File, f.Line)
				}
				if !more {
					break
				}
			}
			if p.Site == "" {
				p.Site = "(outside free5gc/ike)"
			}
			p.Stack = sb.String()
		}
	}()
	f()
	return nil
}

// ---------------------------------------------------------------------------
// registry

type PropFunc func(c *Ctx)

var Props = map[string]PropFunc{}

func Register(id string, f PropFunc) { Props[id] = f }

// ---------------------------------------------------------------------------
// per-case watchdog: a case that does not return within the limit makes the
// child print WATCHDOG <family> <index> and exit 4; the runner then replays that
// single case alone and only a reproduced expiry becomes a violation.

var (
	wdMu    sync.Mutex
	wdName  string
	wdIndex int
	wdStart time.Time
	wdLimit = 30 * time.Second
)

func caseBegin(name string, i int) {
	wdMu.Lock()
	wdName, wdIndex, wdStart = name, i, time.Now()
	wdMu.Unlock()
}

func caseEnd() {
	wdMu.Lock()
	wdStart = time.Time{}
	wdMu.Unlock()
}

// StartWatchdog arms the per-case watchdog (limit <= 0 keeps the default).
func StartWatchdog(limit time.Duration) {
	if limit > 0 {
		wdLimit = limit
	}
	go func() {
		for {
			time.Sleep(250 * time.Millisecond)
			wdMu.Lock()
			st, name, idx := wdStart, wdName, wdIndex
			wdMu.Unlock()
			if !st.IsZero() && time.Since(st) > wdLimit {
				buf := make([]byte, 1<<16)
				n := runtime.Stack(buf, true)
				fmt.Fprintf(os.Stderr, "WATCHDOG %s %d did not return within %v\n%s\n", name, idx, wdLimit, buf[:n])
				os.Exit(4)
			}
		}
	}()
}
