// Package libsa builds the library's SA key objects from raw key material
// through the public API, and names the library's algorithm strings.
package libsa

import (
	"fmt"

	"github.com/free5gc/ike/security"
	"github.com/free5gc/ike/security/dh"
	"github.com/free5gc/ike/security/encr"
	"github.com/free5gc/ike/security/integ"
	"github.com/free5gc/ike/security/prf"

	"verifharness/core"
	"verifharness/mon"
	"verifharness/ref"
)

var (
	EncrNames  = map[int]string{16: "ENCR_AES_CBC_128", 24: "ENCR_AES_CBC_192", 32: "ENCR_AES_CBC_256"}
	IntegNames = []string{"AUTH_HMAC_MD5_96", "AUTH_HMAC_SHA1_96", "AUTH_HMAC_SHA2_256_128"}
	PrfNames   = []string{"PRF_HMAC_MD5", "PRF_HMAC_SHA1", "PRF_HMAC_SHA2_256"}
	DhNames    = []string{"DH_1024_BIT_MODP", "DH_2048_BIT_MODP"}
)

// Raw is a full set of raw IKE SA keys for a suite and PRF.
type Raw struct {
	Suite ref.Suite
	Prf   int
	K     ref.IKEKeys
	// In (optional): the keys are those RFC 7296 2.14 derives from these inputs; NewKey then lets the LIBRARY derive
	// them (GenerateKeyForIKESA) instead of installing them by hand, on a struct with the given keying history
	In *Inputs
}

// Inputs of an IKE SA key derivation and the history of the struct they are derived into.
type Inputs struct {
	Nonce, Shared []byte
	SPIi, SPIr    uint64
	// History: 0 = fresh struct; 1 = the struct was keyed before with other inputs (IKE SA rekey / IKE_SA_INIT rerun
	// that recycles the record); 2 = the struct is a value copy of another SA's keyed struct, then keyed
	History             int
	OldNonce, OldShared []byte
	OldSPIi, OldSPIr    uint64
}

// RandomRaw draws key material (optionally all-zero / all-FF corners).
func RandomRaw(r *core.Rng, s ref.Suite) Raw {
	p := r.Intn(3)
	fill := func(n int) []byte {
		switch r.Intn(12) {
		case 0:
			return make([]byte, n)
		case 1:
			b := make([]byte, n)
			for i := range b {
				b[i] = 0xff
			}
			return b
		}
		return r.Bytes(n)
	}
	pl := ref.PrfKeyLen(p)
	if r.Intn(4) == 0 {
		return derived(r, s, p)
	}
	return Raw{Suite: s, Prf: p, K: ref.IKEKeys{D: fill(pl), Ai: fill(s.IntegKeyLen()), Ar: fill(s.IntegKeyLen()),
		Ei: fill(s.EncKeyLen), Er: fill(s.EncKeyLen), Pi: fill(pl), Pr: fill(pl)}}
}

func derived(r *core.Rng, s ref.Suite, p int) Raw {
	in := &Inputs{Nonce: r.Bytes(r.Range(16, 64)), Shared: r.Bytes(r.Pick(128, 256)), SPIi: r.U64(), SPIr: r.U64(), History: r.Intn(3),
		OldNonce: r.Bytes(32), OldShared: r.Bytes(128), OldSPIi: r.U64(), OldSPIr: r.U64()}
	return Raw{Suite: s, Prf: p, K: ref.DeriveIKE(p, s, in.Nonce, in.Shared, in.SPIi, in.SPIr), In: in}
}

// DerivedRaw: keys that the library derives itself (NewKey calls GenerateKeyForIKESA).
func DerivedRaw(r *core.Rng, s ref.Suite) Raw { return derived(r, s, r.Intn(3)) }

// RecycledFrom: an SA whose struct was keyed for `old` before (same algorithms) and is now keyed for fresh inputs -
// the record of a finished SA reused for the next one.
func RecycledFrom(r *core.Rng, old Raw) Raw {
	n := derived(r, old.Suite, old.Prf)
	n.In.History = 1
	n.In.OldNonce, n.In.OldShared, n.In.OldSPIi, n.In.OldSPIr = old.In.Nonce, old.In.Shared, old.In.SPIi, old.In.SPIr
	return n
}

func (r Raw) JSON() map[string]interface{} {
	return map[string]interface{}{"suite": r.Suite.Name(), "prf": PrfNames[r.Prf],
		"SK_d": core.Hex(r.K.D), "SK_ai": core.Hex(r.K.Ai), "SK_ar": core.Hex(r.K.Ar), "SK_ei": core.Hex(r.K.Ei),
		"SK_er": core.Hex(r.K.Er), "SK_pi": core.Hex(r.K.Pi), "SK_pr": core.Hex(r.K.Pr), "derived_by_library_with_history": r.In != nil}
}

// Sender-direction keys for a role (true = initiator).
func (r Raw) Dir(initiator bool) ref.DirKeys {
	if initiator {
		return ref.DirKeys{Ke: r.K.Ei, Ka: r.K.Ai}
	}
	return ref.DirKeys{Ke: r.K.Er, Ka: r.K.Ar}
}

func cp(b []byte) []byte { return append([]byte{}, b...) }

// NewKey builds a fresh *security.IKESAKey holding the raw keys, the way the
// repository's own tests do it: algorithm descriptors by name, objects through
// Init / NewCrypto.
func NewKey(r Raw) (*security.IKESAKey, error) {
	k := &security.IKESAKey{
		EncrInfo:  encr.StrToType(EncrNames[r.Suite.EncKeyLen]),
		IntegInfo: integ.StrToType(IntegNames[r.Suite.Integ]),
		PrfInfo:   prf.StrToType(PrfNames[r.Prf]),
		DhInfo:    dh.StrToType(DhNames[1]),
	}
	if k.EncrInfo == nil || k.IntegInfo == nil || k.PrfInfo == nil || k.DhInfo == nil {
		return nil, fmt.Errorf("libsa: algorithm lookup by name failed")
	}
	if r.In != nil {
		in := r.In
		if in.History >= 1 {
			if err := k.GenerateKeyForIKESA(cp(in.OldNonce), cp(in.OldShared), in.OldSPIi, in.OldSPIr); err != nil {
				return nil, err
			}
		}
		if in.History == 2 {
			c := *k
			k = &c
		}
		if err := k.GenerateKeyForIKESA(cp(in.Nonce), cp(in.Shared), in.SPIi, in.SPIr); err != nil {
			return nil, err
		}
		core.GlobalCount(fmt.Sprintf("sa_objects_keyed_by_the_library_history_%d", in.History))
		return k, nil
	}
	k.SK_d, k.SK_ai, k.SK_ar, k.SK_ei, k.SK_er, k.SK_pi, k.SK_pr =
		cp(r.K.D), cp(r.K.Ai), cp(r.K.Ar), cp(r.K.Ei), cp(r.K.Er), cp(r.K.Pi), cp(r.K.Pr)
	k.Prf_d = k.PrfInfo.Init(k.SK_d)
	k.Prf_i = k.PrfInfo.Init(k.SK_pi)
	k.Prf_r = k.PrfInfo.Init(k.SK_pr)
	k.Integ_i = k.IntegInfo.Init(k.SK_ai)
	k.Integ_r = k.IntegInfo.Init(k.SK_ar)
	if k.Integ_i == nil || k.Integ_r == nil {
		return nil, fmt.Errorf("libsa: integrity Init returned nil")
	}
	var err error
	if k.Encr_i, err = k.EncrInfo.NewCrypto(k.SK_ei); err != nil {
		return nil, err
	}
	if k.Encr_r, err = k.EncrInfo.NewCrypto(k.SK_er); err != nil {
		return nil, err
	}
	return k, nil
}

// Spy wraps the four cipher / MAC objects of k in recording spies.
func Spy(k *security.IKESAKey) *mon.Trace {
	t := &mon.Trace{}
	k.Encr_i = &mon.SpyCrypto{Name: "Encr_i", Inner: k.Encr_i, T: t}
	k.Encr_r = &mon.SpyCrypto{Name: "Encr_r", Inner: k.Encr_r, T: t}
	k.Integ_i = &mon.SpyHash{Name: "Integ_i", Inner: k.Integ_i, T: t}
	k.Integ_r = &mon.SpyHash{Name: "Integ_r", Inner: k.Integ_r, T: t}
	return t
}
