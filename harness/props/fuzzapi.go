package props

import (
	"github.com/free5gc/ike/security"

	"verifharness/abs"
	"verifharness/core"
	"verifharness/gen"
	"verifharness/ref"
)

// Entry points for the native fuzz targets (harness/fuzz): the fuzzer is only an
// input source, the verdict is still the monitor used by the property's families.

var fuzzEnv = newC04env(core.NewRng(0xf022))

// FuzzC04 runs the C04 monitor (placements, step bound, panic capture) on one byte string.
func FuzzC04(k *core.Case, b []byte) {
	installStepHook()
	c04Probe(k, eMsgDecode, b, nil, "fuzz")
	c04Probe(k, eEAP, b, nil, "fuzz")
	if len(b) >= 1 {
		// the same octets as the plaintext of a validly protected SK payload
		hdr := &abs.Msg{ISPI: 1, RSPI: 2, Major: 2, Exch: 36, MsgID: 3}
		fuzzEnv.protectedProbe(k, hdr, b[0], b[1:], "fuzz")
	}
	c04Probe(k, eDecodeDecrypt("DecodeDecrypt[keyed,fuzz]", fuzzEnv.keyFn(int(len(b))%3), len(b)%2 == 0 && len(b) >= 28, len(b)%4 < 2), b, nil, "fuzz")
	c04Probe(k, eDecodeDecrypt("DecodeDecrypt[nokey,fuzz]", func() *security.IKESAKey { return nil }, false, true), b, nil, "fuzz")
}

// FuzzC12 runs the decode/encode stability monitor on one byte string (message and EAP level).
func FuzzC12(k *core.Case, b []byte) {
	c12Msg(k, b, false, "fuzz")
	c12EAP(k, b, false, "fuzz")
}

// FuzzSeeds returns reference encodings of generated messages / EAP packets as the initial corpus.
func FuzzSeeds(n int) [][]byte {
	var out [][]byte
	r := core.NewRng(0x5eed)
	for i := 0; i < n; i++ {
		m := gen.Msg(r, gen.Opt{AllowEmpty: true, MaxPayloads: 4})
		if w, err := ref.EncodeMsg(m, &ref.Opts{Noise: r.Byte}); err == nil && len(w) < 4000 {
			out = append(out, w)
		}
		if w, err := ref.EncodeEAP(gen.EAP(r), &ref.Opts{AKAOrder: true, AKANoise: r.Byte}); err == nil {
			out = append(out, w)
		}
	}
	return out
}
