package props

import (
	"bytes"
	"crypto/rand"
	"fmt"
	"io"
	"math/big"
	"sync"
	"time"

	ike "github.com/free5gc/ike"
	"github.com/free5gc/ike/eap"
	"github.com/free5gc/ike/message"
	"github.com/free5gc/ike/security"
	"github.com/free5gc/ike/security/dh"
	"github.com/free5gc/ike/security/encr"
	"github.com/free5gc/ike/security/integ"
	"github.com/free5gc/ike/security/prf"

	"verifharness/abs"
	"verifharness/core"
	"verifharness/libsa"
	"verifharness/mon"
	"verifharness/ref"
)

// slowReader delays every read a little (an entropy source under load): widens the windows between critical sections
type slowReader struct{ r io.Reader }

func (s slowReader) Read(p []byte) (int, error) {
	time.Sleep(300 * time.Microsecond)
	return s.r.Read(p)
}

// Fresh-process cases of C09, C10, C18, C20 and C01/C06 (C11's are in c11.go).

func init() {
	// --- C10: the random source fails at the FIRST use of a pad length in this process; later encryptions of that
	// length (any object, healthy source) must be right
	for padClass := 0; padClass < 16; padClass++ {
		for _, failAt := range []int{0, 1} {
			padClass, failAt := padClass, failAt
			registerFresh("C10", freshCase{fmt.Sprintf("random source fails at read %d of the first encryption with n%%16=%d", failAt, padClass), func(rep int) string {
				r := core.NewRng(uint64(rep), 10, uint64(padClass), uint64(failAt))
				kl := []int{16, 24, 32}[rep%3]
				key := r.Bytes(kl)
				n := padClass + 16*r.Intn(3)
				c1, err := newCipher(kl, key)
				if err != nil {
					return "NewCrypto: " + err.Error()
				}
				var e1 error
				mon.WithRand(&mon.Faulty{Src: core.NewRng(1), FailAt: failAt, Mode: rep % 3}, func() { _, e1 = c1.Encrypt(r.Bytes(n)) })
				// (whether this first call fails depends on how many reads it makes; not judged here)
				_ = e1
				for round := 0; round < 3; round++ {
					c2, _ := newCipher(kl, key)
					pt := r.Bytes(n)
					ct, err := c2.Encrypt(append([]byte{}, pt...))
					if err != nil {
						return "healthy source, Encrypt: " + err.Error()
					}
					if len(ct) < 32 || len(ct)%16 != 0 {
						return fmt.Sprintf("ciphertext of %d octets for %d", len(ct), n)
					}
					raw, err := ref.CBCDecrypt(key, ct[:16], ct[16:])
					if err != nil {
						return err.Error()
					}
					pl := int(raw[len(raw)-1])
					if pl != len(raw)-n-1 || !bytes.Equal(raw[:n], pt) {
						return fmt.Sprintf("after a random-source failure at first use: textbook decryption of a later encryption (n=%d) ends in pad-length octet %d, want %d", n, pl, len(raw)-n-1)
					}
					back, err := c2.Decrypt(append([]byte{}, ct...))
					if err != nil || !bytes.Equal(back, pt) {
						return fmt.Sprintf("Decrypt(Encrypt(p)) returned %d octets, want %d (%v)", len(back), n, err)
					}
				}
				return ""
			}})
		}
	}
	// --- C09: first exponent generation with a failing source, then healthy
	for mode := 0; mode < 3; mode++ {
		mode := mode
		registerFresh("C09", freshCase{fmt.Sprintf("random source fails (mode %d) at the first exponent generation", mode), func(rep int) string {
			var e1 error
			var x1 *big.Int
			mon.WithRand(&mon.Faulty{Src: core.NewRng(uint64(rep) + 5), FailAt: rep % 2, Mode: mode}, func() { x1, e1 = security.GenerateRandomNumber() })
			if e1 == nil && x1 != nil && x1.BitLen() < 129 {
				return "a key was produced from a failing source"
			}
			min := new(big.Int).Lsh(big.NewInt(1), 128)
			max := new(big.Int).Lsh(big.NewInt(1), 2048)
			seen := map[string]bool{}
			for i := 0; i < 4; i++ {
				x, err := security.GenerateRandomNumber()
				if err != nil || x.Cmp(min) < 0 || x.Cmp(max) >= 0 || seen[x.String()] {
					return fmt.Sprintf("after a failure at first use: exponent %d: err=%v, in range=%v, repeated=%v", i, err, err == nil && x.Cmp(min) >= 0 && x.Cmp(max) < 0, err == nil && seen[x.String()])
				}
				seen[x.String()] = true
				g := dh.StrToType(libsa.DhNames[i%2])
				if pub := g.GetPublicValue(x); len(pub) != []int{128, 256}[i%2] {
					return "public value length"
				}
			}
			return ""
		}})
	}
	// --- C01 / C06: the first protection in the process meets a failing source
	for _, prop := range []string{"C01", "C06"} {
		registerFresh(prop, freshCase{"random source fails during the first EncodeEncrypt of the process", func(rep int) string {
			r := core.NewRng(uint64(rep), 6)
			s := ref.Suites[rep%9]
			raw := libsa.RandomRaw(r, s)
			m := &abs.Msg{ISPI: r.U64(), RSPI: r.U64(), Major: 2, Exch: 37, Flags: 0x08, MsgID: r.U32(), Payloads: []abs.Payload{{Kind: abs.PNonce, Data: abs.HB(r.Bytes(1 + r.Intn(40)))}}}
			k1, _ := libsa.NewKey(raw)
			mon.WithRand(&mon.Faulty{Src: core.NewRng(3), FailAt: rep % 3, Mode: rep % 3}, func() { libProtect(m, k1, true) })
			for round := 0; round < 3; round++ {
				ks, _ := libsa.NewKey(raw)
				w, err, p := libProtect(m, ks, true)
				if err != nil || p != nil {
					return fmt.Sprint("healthy source: ", err, p)
				}
				um, pad, _, uerr := ref.Unprotect(w, s, raw.Dir(true))
				if uerr != nil || !abs.Equal(m, um) {
					return fmt.Sprintf("after a random-source failure at first use the independent peer cannot unprotect a later message: %v", uerr)
				}
				_ = pad
				kr, _ := libsa.NewKey(raw)
				if d, derr, dp := libUnprotect(w, round%2 == 0, kr, false); derr != nil || dp != nil || !abs.Equal(m, d) {
					return fmt.Sprint("library round trip after a failure at first use: ", derr, dp)
				}
			}
			return ""
		}})
	}
	// --- C20: the first long encoding of the process is held while other things are encoded
	for _, total := range []int{65537, 66000, 70000, 131073, 200000} {
		total := total
		registerFresh("C20", freshCase{fmt.Sprintf("first payload list of > 64 KiB (%d octets) encoded in this process, result held across later encodings", total), func(rep int) string {
			r := core.NewRng(uint64(rep), 20, uint64(total))
			var big message.IKEPayloadContainer
			left := total
			for left > 0 {
				n := 30000 + r.Intn(2000)
				if n > left {
					n = left
				}
				if n < 5 {
					n = 5
				}
				big.BuildNonce(r.Bytes(n - 4))
				left -= n
			}
			lm := message.NewMessage(1, 2, message.IKE_AUTH, false, true, 7, big)
			first, err := big.Encode()
			if err != nil {
				return "container Encode: " + err.Error()
			}
			keep := append([]byte{}, first...)
			whole, err := lm.Encode()
			if err != nil {
				return "message Encode: " + err.Error()
			}
			keepWhole := append([]byte{}, whole...)
			pb := lm.PayloadBytes
			keepPB := append([]byte{}, pb...)
			// later encodings of other things
			for i := 0; i < 4; i++ {
				var other message.IKEPayloadContainer
				other.BuildNonce(r.Bytes(10 + 20000*i))
				other.BuildNotification(1, 16384, nil, r.Bytes(33))
				if _, err := other.Encode(); err != nil {
					return err.Error()
				}
				if _, err := message.NewMessage(3, 4, message.INFORMATIONAL, true, false, 9, other).Encode(); err != nil {
					return err.Error()
				}
			}
			if !bytes.Equal(first, keep) {
				return "the buffer returned by IKEPayloadContainer.Encode changed when other lists were encoded afterwards"
			}
			if !bytes.Equal(whole, keepWhole) {
				return "the datagram returned by IKEMessage.Encode changed when other messages were encoded afterwards"
			}
			if !bytes.Equal(pb, keepPB) {
				return "the message's PayloadBytes (documented view of its own encoding) changed when other messages were encoded afterwards"
			}
			again, err := lm.Encode()
			if err != nil || !bytes.Equal(again, keepWhole) {
				return "second encoding of the unmodified long message differs"
			}
			return ""
		}})
	}
	// --- C18: the very first uses of the library overlap on many goroutines
	type job struct {
		name string
		f    func(r *core.Rng) string
	}
	jobs := []job{
		{"DH registry + Child SA with PFS", func(r *core.Rng) string {
			g := dh.StrToType(libsa.DhNames[r.Intn(2)])
			if g == nil {
				return "dh.StrToType: advertised group unknown"
			}
			tid := []uint16{2, 14}[r.Intn(2)]
			if t := dh.DecodeTransform(&message.Transform{TransformType: 4, TransformID: tid}); t == nil || t.TransformID() != tid {
				return fmt.Sprintf("dh.DecodeTransform(%d) = unsupported", tid)
			}
			p := &message.Proposal{ProposalNumber: 1, ProtocolID: 3, SPI: []byte{1, 2, 3, 4},
				EncryptionAlgorithm:     message.TransformContainer{{TransformType: 1, TransformID: 12, AttributePresent: true, AttributeFormat: 1, AttributeType: 14, AttributeValue: 128}},
				IntegrityAlgorithm:      message.TransformContainer{{TransformType: 3, TransformID: 2}},
				DiffieHellmanGroup:      message.TransformContainer{{TransformType: 4, TransformID: tid}},
				ExtendedSequenceNumbers: message.TransformContainer{{TransformType: 5, TransformID: 0}}}
			ck, err := security.NewChildSAKeyByProposal(p)
			if err != nil || ck == nil || ck.DhInfo == nil || ck.DhInfo.TransformID() != tid {
				return fmt.Sprint("NewChildSAKeyByProposal with PFS: ", err)
			}
			return ""
		}},
		{"ENCR / INTEG / PRF registries + IKE SA", func(r *core.Rng) string {
			e, i, p := r.Intn(3), r.Intn(3), r.Intn(3)
			if encr.StrToType(libsa.EncrNames[[]int{16, 24, 32}[e]]) == nil || integ.StrToType(libsa.IntegNames[i]) == nil || prf.StrToType(libsa.PrfNames[p]) == nil ||
				encr.StrToKType(libsa.EncrNames[16]) == nil || integ.StrToKType(libsa.IntegNames[i]) == nil {
				return "advertised name unknown"
			}
			k := newInfoKey(e, i, p, 0)
			nonce, shared := r.Bytes(32), r.Bytes(128)
			if err := k.GenerateKeyForIKESA(append([]byte{}, nonce...), append([]byte{}, shared...), 5, 6); err != nil {
				return err.Error()
			}
			if bad := cmpKeys(k, ref.DeriveIKE(p, ref.Suite{EncKeyLen: []int{16, 24, 32}[e], Integ: i}, nonce, shared, 5, 6)); bad != "" {
				return bad
			}
			pr, err := k.ToProposal()
			if err != nil || len(pr.EncryptionAlgorithm) != 1 {
				return fmt.Sprint("ToProposal: ", err)
			}
			return ""
		}},
		{"message codec + protection", func(r *core.Rng) string {
			s := ref.Suites[r.Intn(9)]
			raw := libsa.RandomRaw(r, s)
			m := &abs.Msg{ISPI: r.U64(), RSPI: r.U64(), Major: 2, Exch: 36, MsgID: r.U32(), Payloads: []abs.Payload{{Kind: abs.PNonce, Data: abs.HB(r.Bytes(20))}, {Kind: abs.PVendor, Data: abs.HB(r.Bytes(7))}}}
			ks, _ := libsa.NewKey(raw)
			lm, _ := buildMsgObject(m)
			w, err := ike.EncodeEncrypt(lm, ks, message.Role_Initiator)
			if err != nil {
				return err.Error()
			}
			if um, _, _, uerr := ref.Unprotect(w, s, raw.Dir(true)); uerr != nil || !abs.Equal(m, um) {
				return fmt.Sprint("independent peer: ", uerr)
			}
			plain, err, _ := libEncode(m)
			if err != nil {
				return err.Error()
			}
			if want, _ := ref.EncodeMsg(m, nil); !bytes.Equal(plain, want) {
				return "plain encoding differs from the reference"
			}
			return ""
		}},
		{"EAP-AKA' packet, AT_MAC and PRF'", func(r *core.Rng) string {
			ik, ck, id := r.Bytes(16), r.Bytes(16), string(r.Bytes(r.Intn(30)))
			k1, k2, _, _, _, err := eap.EapAkaPrimePRF(ik, ck, id)
			if err != nil {
				return err.Error()
			}
			mk := ref.PrfPrime(append(append([]byte{}, ik...), ck...), append([]byte("EAP-AKA'"), id...), 208)
			if !bytes.Equal(k1, mk[:16]) || !bytes.Equal(k2, mk[16:48]) {
				return "PRF' differs from the reference"
			}
			a := eap.NewEapAkaPrime(eap.SubtypeAkaChallenge)
			_ = a.SetAttr(eap.AT_RAND, r.Bytes(16))
			_ = a.SetAttr(eap.AT_MAC, make([]byte, 16))
			le := &eap.EAP{Code: 1, Identifier: r.Byte(), EapTypeData: a}
			key := r.Bytes(32)
			mac, err := le.CalcEapAkaPrimeAtMAC(key)
			if err != nil {
				return err.Error()
			}
			wire, err := le.Marshal()
			if err != nil {
				return err.Error()
			}
			if off := macOffset(wire); off < 0 || !bytes.Equal(mac, refMAC(key, wire, off)) {
				return "AT_MAC differs from the reference"
			}
			return ""
		}},
	}
	// storms: 64 goroutines all inside the SAME operation at once (a burst of new SAs after a restart), with the
	// ordinary and with a slow random source; every call must come back with a usable result
	type storm struct {
		name string
		f    func(r *core.Rng) string
	}
	storms := []storm{
		{"NewIKESAKey", func(r *core.Rng) string {
			k := newInfoKey(r.Intn(3), r.Intn(3), r.Intn(3), 0)
			pr, err := k.ToProposal()
			if err != nil {
				return err.Error()
			}
			sa, pub, err := security.NewIKESAKey(pr, k.DhInfo.GetPublicValue(big.NewInt(int64(r.U32())+2)), r.Bytes(32), r.U64(), r.U64())
			if err != nil || sa == nil || len(pub) != 128 {
				return fmt.Sprint("NewIKESAKey: ", err)
			}
			return ""
		}},
		{"CalculateDiffieHellmanMaterials", func(r *core.Rng) string {
			k := newInfoKey(0, 0, 0, r.Intn(2))
			pub, sh, err := security.CalculateDiffieHellmanMaterials(k, r.Bytes(100))
			if err != nil || len(pub) != len(sh) || len(pub) < 128 {
				return fmt.Sprint("CalculateDiffieHellmanMaterials: ", err)
			}
			return ""
		}},
		{"GenerateRandomNumber + protection", func(r *core.Rng) string {
			if x, err := security.GenerateRandomNumber(); err != nil || x.BitLen() < 129 {
				return fmt.Sprint("GenerateRandomNumber: ", err)
			}
			s := ref.Suites[r.Intn(9)]
			raw := libsa.RandomRaw(r, s)
			m := &abs.Msg{ISPI: r.U64(), RSPI: r.U64(), Major: 2, Exch: 37, MsgID: r.U32(), Payloads: []abs.Payload{{Kind: abs.PNonce, Data: abs.HB(r.Bytes(24))}}}
			ks, err := libsa.NewKey(raw)
			if err != nil {
				return err.Error()
			}
			w, err, p := libProtect(m, ks, true)
			if err != nil || p != nil {
				return fmt.Sprint("protect: ", err, p)
			}
			if um, _, _, uerr := ref.Unprotect(w, s, raw.Dir(true)); uerr != nil || !abs.Equal(m, um) {
				return fmt.Sprint("independent peer: ", uerr)
			}
			return ""
		}},
	}
	for _, st := range storms {
		for _, slow := range []bool{false, true} {
			st, slow := st, slow
			name := "storm: 64 goroutines inside " + st.name + " at once"
			if slow {
				name += " (slow random source)"
			}
			registerFresh("C18", freshCase{name, func(rep int) string {
				if slow {
					rand.Reader = slowReader{rand.Reader}
				}
				const G = 64
				var wg, ready sync.WaitGroup
				start := make(chan struct{})
				bad := make([]string, G)
				for g := 0; g < G; g++ {
					wg.Add(1)
					ready.Add(1)
					go func(g int) {
						defer wg.Done()
						r := core.NewRng(uint64(rep), 1818, uint64(g))
						ready.Done()
						<-start
						for it := 0; it < 3 && bad[g] == ""; it++ {
							if p := core.Try(func() { bad[g] = st.f(r) }); p != nil {
								bad[g] = "panic: " + p.Value
							}
						}
					}(g)
				}
				ready.Wait()
				close(start)
				wg.Wait() // a deadlock inside the library keeps this from returning: the parent's (repeated) time limit reports it
				for g, b := range bad {
					if b != "" {
						return fmt.Sprintf("goroutine %d: %s", g, b)
					}
				}
				return ""
			}})
		}
	}
	for _, j := range jobs {
		j := j
		registerFresh("C18", freshCase{"first uses overlap on 32 goroutines: " + j.name, func(rep int) string {
			const G = 32
			var wg, ready sync.WaitGroup
			start := make(chan struct{})
			bad := make([]string, G)
			for g := 0; g < G; g++ {
				wg.Add(1)
				ready.Add(1)
				go func(g int) {
					defer wg.Done()
					r := core.NewRng(uint64(rep), 18, uint64(g))
					ready.Done()
					<-start
					if p := core.Try(func() { bad[g] = j.f(r) }); p != nil {
						bad[g] = "panic: " + p.Value
					}
				}(g)
			}
			ready.Wait()
			close(start)
			wg.Wait()
			for g, b := range bad {
				if b != "" {
					return fmt.Sprintf("goroutine %d: %s", g, b)
				}
			}
			return ""
		}})
	}
}
