package props

import (
	"bytes"
	"crypto/rand"
	"fmt"
	"io"
	"math/big"
	"sync"

	"github.com/free5gc/ike/message"
	"github.com/free5gc/ike/security"
	"github.com/free5gc/ike/security/dh"
	"github.com/free5gc/ike/security/encr"

	"verifharness/core"
	"verifharness/libsa"
	"verifharness/mon"
	"verifharness/ref"
)

func init() {
	core.Register("C09", c09)
	core.Register("C10", c10)
}

// chunkReader delivers at most max octets per Read and never fails.
type chunkReader struct {
	src io.Reader
	max int
}

func (c *chunkReader) Read(p []byte) (int, error) {
	if len(p) > c.max {
		p = p[:c.max]
	}
	return c.src.Read(p)
}

func grp(i int) (dh.DHType, *big.Int, int) {
	if i == 0 {
		return dh.StrToType(libsa.DhNames[0]), ref.P1024, 128
	}
	return dh.StrToType(libsa.DhNames[1]), ref.P2048, 256
}

func bigClass(v, p *big.Int) string {
	switch {
	case v.Sign() == 0:
		return "0"
	case v.Cmp(big.NewInt(2)) <= 0:
		return "1-2"
	case v.BitLen() <= 256:
		return "small"
	}
	d := new(big.Int).Sub(v, p)
	if d.CmpAbs(big.NewInt(1)) <= 0 {
		return "p+-1"
	}
	if v.Cmp(p) > 0 {
		return ">p"
	}
	return "<p"
}

func leadingZeros(b []byte) int {
	n := 0
	for n < len(b) && b[n] == 0 {
		n++
	}
	return n
}

func lzClass(n int) string {
	switch {
	case n == 0:
		return "0"
	case n == 1:
		return "1"
	case n < 100:
		return "2-99"
	}
	return "100+"
}

func exponents(r *core.Rng, p *big.Int) []*big.Int {
	one := big.NewInt(1)
	max := new(big.Int).Sub(new(big.Int).Lsh(one, 2048), one)
	pm1 := new(big.Int).Sub(p, one)
	// multiples of the group order p-1 that still fit 2048 bits (Fermat: y^(k(p-1)) = 1 only for y coprime to p)
	kq := new(big.Int).Mul(pm1, big.NewInt(int64(r.Range(2, 99))))
	if p.BitLen() < 1500 {
		kq.Lsh(kq, uint(r.Range(1, 900)))
	} else {
		kq = new(big.Int).Set(pm1) // group 14: 2(p-1) no longer fits 2048 bits; use p-1 again
	}
	return []*big.Int{big.NewInt(0), big.NewInt(1), big.NewInt(2), pm1, new(big.Int).Set(p), new(big.Int).Add(p, one), max, kq,
		big.NewInt(int64(r.Range(3, 800))), new(big.Int).SetBytes(r.Bytes(r.Range(1, 256))), new(big.Int).SetBytes(r.Bytes(256)), new(big.Int).SetBytes(r.Bytes(17))}
}

func peers(r *core.Rng, p *big.Int) []*big.Int {
	one := big.NewInt(1)
	max := new(big.Int).Sub(new(big.Int).Lsh(one, 2056), one)
	lz := new(big.Int).SetBytes(r.Bytes(r.Range(1, len(p.Bytes())-1))) // value with leading zero octets
	kp := new(big.Int).Mul(p, big.NewInt(int64(r.Range(2, 200))))      // a multiple of p below 2^2056
	return []*big.Int{big.NewInt(0), big.NewInt(1), big.NewInt(2), new(big.Int).Sub(p, one), new(big.Int).Set(p), new(big.Int).Add(p, one), max, kp,
		lz, new(big.Int).SetBytes(r.Bytes(len(p.Bytes()))), new(big.Int).SetBytes(r.Bytes(257))}
}

func c09(c *core.Ctx) {
	c.Info("rule", "modexp case = (group, exponent class in {0,1,2,p-1,p,p+1,2^2048-1,small,random}, peer class in {0,1,2,p-1,p,p+1,2^2056-1,leading-zero value,random}) compared with a hand-written square-and-multiply over primes recomputed from the RFC 2409/3526 formulas, output length exactly 128/256, "+
		"leading-zero results searched for (exponent 1 with a short peer value, small exponents); agreement of two parties; exponent generation observed through the replaced crypto/rand.Reader: bounds, distinctness, >= 32 octets drawn, stream dependence, below-minimum retry, "+
		"reader failing at read k / short reads / error after partial data => error and no key; distinct = (group, exponent class, peer class, leading-zero class, fault index/mode)")
	c.Info("assumptions", "'comes from the system random source' is observable only as consumption of the crypto/rand.Reader global || fault verdicts are defined for the baseline toolchain go1.23 (go1.26 aborts the process on a failing reader)")
	// the constants themselves
	c.Family("primes", 2, func(k *core.Case) {
		k.Eval(1)
		_, p, n := grp(k.Index)
		s := dh.Group2PrimeString
		if k.Index == 1 {
			s = dh.Group14PrimeString
		}
		lp, ok := new(big.Int).SetString(s, 16)
		if !ok || lp.Cmp(p) != 0 {
			k.Violate("mismatch", "prime-constant-differs-from-formula", fmt.Sprintf("group %d: library %s", k.Index, s), nil)
			return
		}
		q := new(big.Int).Rsh(p, 1)
		if !p.ProbablyPrime(32) || !q.ProbablyPrime(32) || len(p.Bytes()) != n {
			k.Violate("mismatch", "prime-not-safe-prime", "", nil)
			return
		}
		k.Distinct(fmt.Sprintf("prime|%d", k.Index))
	})
	c.Family("modexp", c.N(60, 8000), func(k *core.Case) {
		noiseFor(k)
		gi := k.Index % 2
		g, p, n := grp(gi)
		type heldRes struct {
			got, snap []byte
		}
		var held []heldRes // results handed out earlier must not change when later ones are computed
		defer func() {
			for _, h := range held {
				if !bytes.Equal(h.got, h.snap) {
					k.Violate("history", "earlier-dh-result-changed-by-later-call", "a public value / shared secret returned earlier changed when a later one was computed", M{"group": libsa.DhNames[gi]})
					return
				}
			}
		}()
		for _, x := range exponents(k.R, p) {
			k.Eval(1)
			var pub []byte
			pn := core.Try(func() { pub = g.GetPublicValue(new(big.Int).Set(x)) })
			w := M{"group": libsa.DhNames[gi], "exponent": x.Text(16)}
			if pn != nil {
				k.Violate("panic", "GetPublicValue: "+pn.Sig(), "panic", panicData(pn, w))
				continue
			}
			want := ref.FixedLen(ref.ModExp(big.NewInt(2), x, p), n)
			if !bytes.Equal(pub, want) {
				k.Violate("mismatch", fmt.Sprintf("public-value-wrong/len=%d", len(pub)), fmt.Sprintf("GetPublicValue = %x (%d octets), reference 2^x mod p = %x", pub, len(pub), want), w)
				continue
			}
			held = append(held, heldRes{pub, append([]byte{}, pub...)})
			k.Count("lz_public_"+lzClass(leadingZeros(pub)), 1)
			k.Distinct(fmt.Sprintf("pub|%d|%s|lz%s", gi, bigClass(x, p), lzClass(leadingZeros(pub))))
			for _, y := range peers(k.R, p) {
				k.Eval(1)
				var sh []byte
				pn := core.Try(func() { sh = g.GetSharedKey(new(big.Int).Set(x), new(big.Int).Set(y)) })
				w := M{"group": libsa.DhNames[gi], "exponent": x.Text(16), "peer": y.Text(16)}
				if pn != nil {
					k.Violate("panic", "GetSharedKey: "+pn.Sig(), "panic", panicData(pn, w))
					continue
				}
				want := ref.FixedLen(ref.ModExp(y, x, p), n)
				if !bytes.Equal(sh, want) {
					k.Violate("mismatch", fmt.Sprintf("shared-secret-wrong/len=%d", len(sh)), fmt.Sprintf("GetSharedKey = %x (%d octets), reference y^x mod p = %x", sh, len(sh), want), w)
					continue
				}
				k.Count("lz_shared_"+lzClass(leadingZeros(sh)), 1)
				k.Distinct(fmt.Sprintf("sh|%d|%s|%s|lz%s", gi, bigClass(x, p), bigClass(y, p), lzClass(leadingZeros(sh))))
				if k.WantSample() && x.BitLen() > 64 && y.BitLen() > 64 {
					w["shared_secret"] = core.Hex(sh)
					k.Sample(w)
				}
			}
		}
	})
	// results with exactly a few leading zero octets: exponent 1 (and 2) with peers that have leading zeros
	c.Family("leading-zero-search", c.N(400, 100000), func(k *core.Case) {
		gi := k.Index % 2
		g, p, n := grp(gi)
		nz := 1 + k.Index/2%4
		y := new(big.Int).SetBytes(k.R.Bytes(n - nz))
		x := big.NewInt(1)
		if k.Index%5 == 0 { // y^2 < p for a y of less than half the size
			y = new(big.Int).SetBytes(k.R.Bytes(n/2 - nz))
			x = big.NewInt(2)
		}
		k.Eval(1)
		sh := g.GetSharedKey(x, y)
		want := ref.FixedLen(ref.ModExp(y, x, p), n)
		if !bytes.Equal(sh, want) {
			k.Violate("mismatch", fmt.Sprintf("shared-secret-wrong/len=%d", len(sh)), fmt.Sprintf("leading zeros lost or wrong: %x vs %x", sh, want), M{"group": libsa.DhNames[gi], "exponent": x.Text(16), "peer": y.Text(16)})
			return
		}
		if leadingZeros(sh) > 0 {
			k.Count("lz_shared_searched", 1)
			k.Count("lz_shared_"+lzClass(leadingZeros(sh)), 1)
		}
		k.Distinct(fmt.Sprintf("lzs|%d|%d", gi, leadingZeros(sh)))
	})
	// ONE *big.Int object handed in as exponent AND as peer value (x = y, also >= p), and the same object used again
	// afterwards: the result is y^x mod p for the value it had, and the object keeps that value for the caller
	c.Family("same-object-as-exponent-and-peer", c.N(24, 2400), func(k *core.Case) {
		gi := k.Index % 2
		g, p, n := grp(gi)
		var v *big.Int
		switch k.Index / 2 % 6 {
		case 0:
			v = new(big.Int).Add(p, big.NewInt(int64(k.R.Intn(1000))))
		case 1:
			v = new(big.Int).Lsh(big.NewInt(1), 2047)
			v.Add(v, new(big.Int).SetBytes(k.R.Bytes(100)))
		case 2:
			v = new(big.Int).Sub(new(big.Int).Lsh(big.NewInt(1), 2048), big.NewInt(int64(1+k.R.Intn(1000))))
		case 3:
			v = new(big.Int).SetBytes(k.R.Bytes(n))
		case 4:
			v = new(big.Int).Mul(p, big.NewInt(int64(2+k.R.Intn(5))))
		default:
			v = new(big.Int).SetBytes(k.R.Bytes(256))
		}
		val := new(big.Int).Set(v)
		want := ref.FixedLen(ref.ModExp(val, val, p), n)
		k.Eval(1)
		var got []byte
		pn := core.Try(func() { got = g.GetSharedKey(v, v) })
		w := M{"group": libsa.DhNames[gi], "value": val.Text(16)}
		if pn != nil {
			k.Violate("panic", "GetSharedKey(v,v): "+pn.Sig(), "panic", panicData(pn, w))
			return
		}
		if !bytes.Equal(got, want) {
			k.Violate("mismatch", "shared-secret-wrong/same-object-as-exponent-and-peer", fmt.Sprintf("GetSharedKey(v, v) = %x..., reference v^v mod p = %x...", got[:8], want[:8]), w)
			return
		}
		if v.Cmp(val) != 0 {
			k.Count("argument_value_changed_by_GetSharedKey(not judged)", 1)
		}
		// distinct objects with the same value: same result
		if got2 := g.GetSharedKey(new(big.Int).Set(val), new(big.Int).Set(val)); !bytes.Equal(got2, want) {
			k.Violate("mismatch", "shared-secret-wrong/equal-values", "", w)
			return
		}
		k.Count("same_object_as_exponent_and_peer", 1)
		k.Distinct(fmt.Sprintf("sameobj|%d|%d", gi, k.Index/2%6))
	})
	// the combined call (draw an exponent, compute public value and shared secret) under a KNOWN random stream, with
	// peer values that stand in a relation to the locally drawn exponent: the peer drew the same exponent (both ends
	// seeded alike, or a reflected KE payload), its neighbours, and the usual special values
	c.Family("materials-related-peer", c.N(48, 6000), func(k *core.Case) {
		gi := k.Index % 2
		_, p, n := grp(gi)
		seed := k.R.U64()
		var x *big.Int
		var xerr error
		mon.WithRand(core.NewRng(seed), func() { x, xerr = security.GenerateRandomNumber() })
		if xerr != nil {
			k.Violate("error", "GenerateRandomNumber-error", xerr.Error(), nil)
			return
		}
		own := ref.FixedLen(ref.ModExp(big.NewInt(2), x, p), n)
		var peer []byte
		rel := k.Index / 2 % 8
		switch rel {
		case 0:
			peer = own // the peer drew the same exponent
		case 1:
			peer = new(big.Int).SetBytes(own).Bytes() // the same without leading zeros
		case 2:
			peer = ref.FixedLen(ref.ModExp(big.NewInt(2), new(big.Int).Add(x, big.NewInt(1)), p), n)
		case 3:
			peer = ref.FixedLen(new(big.Int).Sub(p, new(big.Int).SetBytes(own)), n) // -own mod p
		case 4:
			peer = ref.FixedLen(big.NewInt(int64(k.R.Pick(0, 1, 2))), n)
		case 5:
			peer = ref.FixedLen(new(big.Int).Sub(p, big.NewInt(1)), n)
		case 6:
			peer = append([]byte{0}, own...) // one octet longer (leading zero)
		default:
			peer = k.R.Bytes(n)
		}
		key := newInfoKey(k.R.Intn(3), k.R.Intn(3), k.R.Intn(3), gi)
		var pub, shared []byte
		var err error
		k.Eval(1)
		pn := core.Try(func() {
			mon.WithRand(core.NewRng(seed), func() { pub, shared, err = security.CalculateDiffieHellmanMaterials(key, append([]byte{}, peer...)) })
		})
		w := M{"group": libsa.DhNames[gi], "relation": rel, "x": x.Text(16), "peer": core.Hex(peer)}
		if pn != nil {
			k.Violate("panic", "materials: "+pn.Sig(), "panic", panicData(pn, w))
			return
		}
		if err != nil {
			k.Violate("error", fmt.Sprintf("materials-refused/relation%d", rel), "a healthy random source and a peer value in range: "+err.Error(), w)
			return
		}
		wantS := ref.FixedLen(ref.ModExp(new(big.Int).SetBytes(peer), x, p), n)
		if !bytes.Equal(pub, own) || !bytes.Equal(shared, wantS) {
			k.Violate("mismatch", fmt.Sprintf("materials-wrong/relation%d", rel), fmt.Sprintf("public %x..., shared %x...; reference %x..., %x...", pub[:6], shared[:6], own[:6], wantS[:6]), w)
			return
		}
		k.Count("materials_with_related_peer", 1)
		k.Distinct(fmt.Sprintf("materials|%d|%d", gi, rel))
	})
	// the agreement clause through the ONE call a responder makes (NewIKESAKey draws the exponent, computes the public
	// value and the secret and keys the SA): peer values of every in-domain length - shorter than, equal to and LONGER
	// than the modulus (0 <= y < 2^2056, also y >= p and y >= 2^(8n)) - with the exponent known through the random
	// stream; the secret is only visible through the SA keys, which must be those of y^x mod p
	c.Family("peer-values-of-any-length-through-the-responder-call", c.N(36, 3600), func(k *core.Case) {
		d := k.Index % 2
		grp := []int{128, 256}[d]
		pmod := []*big.Int{ref.P1024, ref.P2048}[d]
		var y []byte
		switch k.Index / 2 % 6 {
		case 0:
			y = k.R.Bytes(grp)
		case 1: // longer than the modulus, excess octets not zero
			y = k.R.Bytes(k.R.Range(grp+1, 257))
			y[0] |= 1
		case 2: // 257 octets
			y = k.R.Bytes(257)
			y[0] |= 0x80
		case 3: // sign octet(s) in front
			y = append(make([]byte, k.R.Range(1, 257-grp)), k.R.Bytes(grp)...)
		case 4: // short
			y = k.R.Bytes(k.R.Range(1, grp-1))
		default: // one excess octet
			y = append([]byte{byte(1 + k.R.Intn(255))}, k.R.Bytes(grp)...)
		}
		if len(y) > 257 {
			y = y[:257]
		}
		yRef := new(big.Int).SetBytes(y)
		e, i, p := k.R.Intn(3), k.R.Intn(3), k.R.Intn(3)
		prop, perr := newInfoKey(e, i, p, d).ToProposal()
		if perr != nil {
			return
		}
		nonces, spii, spir := k.R.Bytes(48), k.R.U64(), k.R.U64()
		seed := k.R.U64()
		var x *big.Int
		var xerr, err error
		var sa *security.IKESAKey
		var pub []byte
		w := M{"group": libsa.DhNames[d], "peer_value": core.Hex(y), "random_stream_seed": seed}
		k.Eval(1)
		pn := core.Try(func() {
			mon.WithRand(core.NewRng(seed), func() { x, xerr = security.GenerateRandomNumber() })
			mon.WithRand(core.NewRng(seed), func() { sa, pub, err = security.NewIKESAKey(prop, append([]byte{}, y...), nonces, spii, spir) })
		})
		if pn != nil {
			k.Violate("panic", "NewIKESAKey: "+pn.Sig(), "panic", panicData(pn, w))
			return
		}
		if xerr != nil || err != nil || sa == nil {
			k.Violate("error", "responder-call-refuses-in-domain-peer-value", fmt.Sprint(xerr, err), w)
			return
		}
		if !bytes.Equal(pub, ref.FixedLen(ref.ModExp(big.NewInt(2), x, pmod), grp)) {
			k.Violate("mismatch", "responder-public-value", "public value is not 2^x mod p of the exponent drawn", w)
			return
		}
		shared := ref.FixedLen(ref.ModExp(yRef, x, pmod), grp)
		if bad := cmpKeys(sa, ref.DeriveIKE(p, ref.Suite{EncKeyLen: []int{16, 24, 32}[e], Integ: i}, nonces, shared, spii, spir)); bad != "" {
			k.Violate("mismatch", "responder-secret-not-y^x-mod-p", fmt.Sprintf("peer value of %d octets: the SA keys are not those of the shared secret y^x mod p: %s", len(y), bad), w)
			return
		}
		k.Count(fmt.Sprintf("responder_call_peer_value_class_%d", k.Index/2%6), 1)
		k.Distinct(fmt.Sprintf("respcall|%d|%d", d, k.Index/2%6))
	})
	c.Require("responder_call_peer_value_class_1", "responder_call_peer_value_class_2", "responder_call_peer_value_class_5")
	c.Family("agreement", c.N(40, 10000), func(k *core.Case) {
		noiseFor(k)
		gi := k.Index % 2
		g, p, n := grp(gi)
		a, err1 := security.GenerateRandomNumber()
		b, err2 := security.GenerateRandomNumber()
		if err1 != nil || err2 != nil {
			k.Violate("error", "GenerateRandomNumber-error", fmt.Sprint(err1, err2), nil)
			return
		}
		k.Eval(1)
		aVal := new(big.Int).Set(a) // the value drawn, for the reference (the objects go through several calls)
		pa, pb := g.GetPublicValue(a), g.GetPublicValue(b)
		if k.Index%2 == 1 {
			// between sending its public value and computing the secret, each party uses the SAME exponent object with the
			// other group (a KE for the peer's preferred group after INVALID_KE_PAYLOAD, later abandoned)
			og, _, _ := grp(1 - gi)
			_ = og.GetPublicValue(a)
			_ = og.GetSharedKey(b, new(big.Int).SetBytes(pa))
			k.Count("exponent_objects_used_with_the_other_group_in_between", 1)
		}
		sa := g.GetSharedKey(a, new(big.Int).SetBytes(pb))
		sb := g.GetSharedKey(b, new(big.Int).SetBytes(pa))
		if !bytes.Equal(sa, sb) || len(sa) != n || len(pa) != n {
			k.Violate("mismatch", "two-parties-disagree", fmt.Sprintf("%x vs %x", sa, sb), M{"group": libsa.DhNames[gi], "a": a.Text(16), "b": b.Text(16)})
			return
		}
		if !bytes.Equal(sa, ref.FixedLen(ref.ModExp(new(big.Int).SetBytes(pb), aVal, p), n)) || !bytes.Equal(pa, ref.FixedLen(ref.ModExp(big.NewInt(2), aVal, p), n)) {
			k.Violate("mismatch", "shared-secret-wrong/agreement", "", M{"a": a.Text(16)})
			return
		}
		// observation only (not judged: C09 speaks about what the DH calls compute, not about what a later keying call may
		// do with the slice it is handed, e.g. wipe it): does keying an IKE SA with the returned slice modify it?
		want := append([]byte{}, sa...)
		if ka := newInfoKey(0, 0, 0, gi); ka.GenerateKeyForIKESA(k.R.Bytes(32), sa, 1, 2) == nil && !bytes.Equal(sa, want) {
			k.Count("shared_secret_slice_modified_by_keying(not judged)", 1)
		}
		k.Distinct(fmt.Sprintf("agree|%d|%d", gi, k.Index/2%8))
	})
	min := new(big.Int).Lsh(big.NewInt(1), 128)
	max := new(big.Int).Lsh(big.NewInt(1), 2048)
	c.Family("exponent-generation", c.N(20, 6000), func(k *core.Case) {
		seen := map[string]bool{}
		for i := 0; i < 100; i++ {
			rec := &mon.Recorder{Src: mon.RealRand()}
			var x *big.Int
			var err error
			k.Eval(1)
			mon.WithRand(rec, func() { x, err = security.GenerateRandomNumber() })
			if err != nil || x == nil {
				k.Violate("error", "GenerateRandomNumber-error", fmt.Sprint(err), nil)
				return
			}
			if x.Cmp(min) < 0 || x.Cmp(max) >= 0 {
				k.Violate("bounds", "exponent-out-of-bounds", x.Text(16), nil)
				return
			}
			if rec.Bytes < 32 {
				k.Violate("entropy", "exponent-not-from-random-source", fmt.Sprintf("only %d octets were drawn from crypto/rand.Reader", rec.Bytes), M{"x": x.Text(16)})
				return
			}
			if seen[x.Text(16)] {
				k.Violate("entropy", "exponent-repeats", x.Text(16), nil)
				return
			}
			seen[x.Text(16)] = true
			k.Count("rand_bytes_drawn", rec.Bytes)
		}
		// stream dependence: two deterministic streams => two exponents; same stream => same exponent
		s1, s2 := k.R.U64(), k.R.U64()
		var a, b, a2 *big.Int
		mon.WithRand(core.NewRng(s1), func() { a, _ = security.GenerateRandomNumber() })
		mon.WithRand(core.NewRng(s2), func() { b, _ = security.GenerateRandomNumber() })
		mon.WithRand(core.NewRng(s1), func() { a2, _ = security.GenerateRandomNumber() })
		k.Eval(3)
		if a == nil || b == nil || a2 == nil || a.Cmp(b) == 0 {
			k.Violate("entropy", "exponent-independent-of-random-stream", "two different streams gave the same exponent", nil)
			return
		}
		if a.Cmp(a2) != 0 {
			k.Count("exponent_not_a_function_of_the_stream(not judged)", 1)
		}
		// a stream that starts with a below-minimum value is retried past it
		low := io.MultiReader(bytes.NewReader(make([]byte, 256)), core.NewRng(s1))
		var x *big.Int
		var err error
		k.Eval(1)
		mon.WithRand(low, func() { x, err = security.GenerateRandomNumber() })
		if err != nil || x == nil || x.Cmp(min) < 0 {
			k.Violate("bounds", "below-minimum-not-retried", fmt.Sprint(x, err), nil)
			return
		}
		k.Count("below_minimum_retried", 1)
		k.Distinct(fmt.Sprintf("gen|%d", k.Index%16))
	})
	// runs of k consecutive below-minimum draws followed by good ones: the result is never a rejected draw
	c.Family("low-draw-runs", c.N(64, 20000), func(k *core.Case) {
		run := 1 + k.Index%64
		var parts []io.Reader
		for i := 0; i < run; i++ {
			low := make([]byte, 256)
			switch k.R.Intn(3) {
			case 0: // zero
			case 1:
				copy(low[240:], k.R.Bytes(16)) // < 2^128
			default:
				low[255] = byte(k.R.Intn(3))
			}
			parts = append(parts, bytes.NewReader(low))
		}
		parts = append(parts, core.NewRng(k.R.U64()))
		var x *big.Int
		var err error
		k.Eval(1)
		pn := core.Try(func() { mon.WithRand(io.MultiReader(parts...), func() { x, err = security.GenerateRandomNumber() }) })
		w := M{"consecutive_below_minimum_draws": run}
		if pn != nil {
			k.Violate("panic", "low-draws: "+pn.Sig(), "panic", panicData(pn, w))
			return
		}
		if err == nil && (x == nil || x.Cmp(min) < 0 || x.Cmp(max) >= 0) {
			k.Violate("bounds", "rejected-draw-returned-as-exponent", fmt.Sprintf("after %d below-minimum draws GenerateRandomNumber returned %v with a nil error", run, x), w)
			return
		}
		// the same through the DH plumbing: the public value must not be that of a tiny exponent
		parts = parts[:0]
		for i := 0; i < run; i++ {
			parts = append(parts, bytes.NewReader(make([]byte, 256)))
		}
		parts = append(parts, core.NewRng(k.R.U64()))
		ini := newInfoKey(0, 0, 0, k.Index%2)
		var pub []byte
		k.Eval(1)
		mon.WithRand(io.MultiReader(parts...), func() { pub, _, err = security.CalculateDiffieHellmanMaterials(ini, []byte{2}) })
		if err == nil && leadingZeros(pub) > len(pub)-17 {
			k.Violate("bounds", "rejected-draw-used-as-DH-secret", fmt.Sprintf("public value %x... is 2^x for a tiny x", pub[len(pub)-8:]), w)
			return
		}
		k.Count("low_draw_runs", 1)
		k.Distinct(fmt.Sprintf("lowrun|%d", run))
	})
	// a source that only ever delivers short reads (never fails): same exponent as with full reads of the same stream
	c.Family("short-read-source", c.N(40, 2000), func(k *core.Case) {
		seed := k.R.U64()
		var a, b *big.Int
		var e1, e2 error
		k.Eval(2)
		mon.WithRand(core.NewRng(seed), func() { a, e1 = security.GenerateRandomNumber() })
		mon.WithRand(&chunkReader{src: core.NewRng(seed), max: 1 + k.Index%7}, func() { b, e2 = security.GenerateRandomNumber() })
		if e1 != nil || e2 != nil || a == nil || b == nil || a.Cmp(b) != 0 {
			k.Violate("entropy", "short-reads-change-the-exponent", fmt.Sprintf("a source delivering at most %d octets per Read gives another (partly zero?) exponent: %v %v", 1+k.Index%7, e1, e2),
				M{"full": fmt.Sprint(a), "short": fmt.Sprint(b)})
			return
		}
		k.Count("short_read_sources", 1)
		k.Distinct(fmt.Sprintf("short|%d", 1+k.Index%7))
	})
	c.Family("random-source-faults", c.N(27, 600), func(k *core.Case) {
		mode := k.Index % 3
		for failAt := 0; failAt < 6; failAt++ {
			f := &mon.Faulty{Src: mon.RealRand(), FailAt: failAt, Mode: mode, Err: mon.FaultErrors[k.Index/3%len(mon.FaultErrors)]}
			var x *big.Int
			var err error
			k.Eval(1)
			pn := core.Try(func() { mon.WithRand(f, func() { x, err = security.GenerateRandomNumber() }) })
			w := M{"fail_at_read": failAt, "mode": mode}
			if pn != nil {
				k.Violate("panic", "rng-fault: "+pn.Sig(), "panic", panicData(pn, w))
				return
			}
			if !f.Hit {
				if err != nil {
					k.Violate("error", "error-without-fault", fmt.Sprint(err), w)
				}
				break // the call no longer reaches read k
			}
			if err == nil || x != nil {
				k.Violate("fault", fmt.Sprintf("failing-random-source-produced-a-key/mode%d", mode), fmt.Sprintf("reader failed at read %d but GenerateRandomNumber returned %v, %v", failAt, x, err), w)
				return
			}
			// the same through NewIKESAKey: error, nil key, nil public value
			f2 := &mon.Faulty{Src: mon.RealRand(), FailAt: failAt, Mode: mode, Err: mon.FaultErrors[k.Index/3%len(mon.FaultErrors)]}
			ini := newInfoKey(k.Index%3, k.Index/3%3, k.Index/9%3, k.Index%2)
			prop, _ := ini.ToProposal()
			peerPub := ini.DhInfo.GetPublicValue(big.NewInt(12345))
			var key *security.IKESAKey
			var pub []byte
			k.Eval(1)
			pn = core.Try(func() {
				mon.WithRand(f2, func() { key, pub, err = security.NewIKESAKey(prop, peerPub, []byte("nonces"), 1, 2) })
			})
			if pn != nil {
				k.Violate("panic", "rng-fault-NewIKESAKey: "+pn.Sig(), "panic", panicData(pn, w))
				return
			}
			if f2.Hit && (err == nil || key != nil || pub != nil) {
				k.Violate("fault", "failing-random-source-produced-an-SA", fmt.Sprintf("NewIKESAKey: key=%v pub=%d octets err=%v", key != nil, len(pub), err), w)
				return
			}
			k.Count(fmt.Sprintf("fault_at_read_%d", failAt), 1)
			k.Distinct(fmt.Sprintf("fault|%d|%d", failAt, mode))
			if k.WantSample() {
				k.Sample(M{"fault": "crypto/rand.Reader fails", "fail_at_read": failAt, "mode": mode, "GenerateRandomNumber": "error, nil", "NewIKESAKey": "error, nil key, nil public value"})
			}
		}
	})
	freshFamily(c, "C09", "fresh-process", c.N(2, 40))
	c.Require("exponent_objects_used_with_the_other_group_in_between", "same_object_as_exponent_and_peer", "materials_with_related_peer", "fresh_process_cases_ok", "short_read_sources", "low_draw_runs", "lz_shared_1", "lz_shared_100+", "lz_public_100+", "below_minimum_retried", "fault_at_read_0", "lz_shared_searched")
}

// ---------------------------------------------------------------------------
// C10

func newCipher(keyLen int, key []byte) (interface {
	Encrypt([]byte) ([]byte, error)
	Decrypt([]byte) ([]byte, error)
}, error) {
	return encr.StrToType(libsa.EncrNames[keyLen]).NewCrypto(key)
}

func c10(c *core.Ctx) {
	c.Info("rule", "inverse/size-law case = (key size 16/24/32, plaintext length: all of 0..300 then sampled to 4096): Decrypt(Encrypt(pt))==pt, len(ct)=16+16k with n<16k<=n+256, textbook CBC decryption = pt | pad | padlen; IV freshness across calls/objects with the recording and deterministic random source; "+
		"reader failing at each read index => error and nil ciphertext; NewCrypto with key sizes 0..64; EXHAUSTIVE Decrypt over lengths 0..96 x recovered pad octet 0..255 (crafted with the reference encryptor): error iff too short / misaligned / pad+1 > body, else the exact plaintext; "+
		"interleaved Encrypt/Decrypt histories on one object equal fresh objects under a deterministic stream; distinct = (key size, length class / pad relation / fault index)")
	c.Info("assumptions", "fault verdicts are defined for the baseline toolchain go1.23")
	c.Family("key-sizes", 65*3, func(k *core.Case) {
		noiseFor(k)
		want := []int{16, 24, 32}[k.Index%3]
		n := k.Index / 3
		k.Eval(1)
		var err error
		var ci interface{}
		key := k.R.Bytes(n)
		pn := core.Try(func() {
			if n != want && (n == 16 || n == 24 || n == 32) {
				// the same key octets are in use elsewhere in the process, legitimately, under the transform of their own
				// size (another SA negotiated that size): this transform must still refuse them
				if _, e0 := newCipher(n, append([]byte{}, key...)); e0 == nil {
					k.Count("wrong_size_key_already_in_use_under_its_own_size", 1)
				}
			}
			ci, err = newCipher(want, key)
		})
		if pn != nil {
			k.Violate("panic", "NewCrypto: "+pn.Sig(), "panic", panicData(pn, M{"negotiated": want, "key_len": n}))
			return
		}
		if (err == nil) != (n == want) || (err != nil && ci != nil && fmt.Sprint(ci) != "<nil>") {
			k.Violate("key-size", fmt.Sprintf("NewCrypto-accepts-wrong-key-size/negotiated=%d/accepted=%v", want, err == nil), fmt.Sprintf("negotiated %d, key of %d octets: err=%v", want, n, err), M{"negotiated": want, "key_len": n})
			return
		}
		k.Distinct(fmt.Sprintf("keysize|%d|%d", want, n))
	})
	c.Family("inverse", c.N(3*2000, 3*6000000), func(k *core.Case) {
		noiseFor(k)
		kl := []int{16, 24, 32}[k.Index%3]
		n := k.Index / 3
		if n > 300 {
			n = k.R.Range(0, 4096)
		}
		key := k.R.Bytes(kl)
		pt := k.R.Bytes(n)
		ci, err := newCipher(kl, key)
		if err != nil {
			k.Violate("key-size", "NewCrypto-refuses-negotiated-size", err.Error(), nil)
			return
		}
		w := M{"key": core.Hex(key), "plaintext_len": n, "plaintext": core.HexClip(pt, 256)}
		rec := &mon.Recorder{Src: mon.RealRand()}
		var ct []byte
		k.Eval(1)
		// the caller's plaintext slice has 0..40 octets of spare room behind it (every value, cycling with the case index,
		// so that each length class meets each amount of spare room): Encrypt must not depend on it
		spare := (k.Index / 3 / 7) % 41
		if k.Index%2 == 0 {
			spare = 0
		}
		in := append(make([]byte, 0, n+spare), pt...)
		w["spare_capacity_behind_plaintext"] = spare
		pn := core.Try(func() { mon.WithRand(rec, func() { ct, err = ci.Encrypt(in) }) })
		if pn != nil {
			k.Violate("panic", "Encrypt: "+pn.Sig(), "panic", panicData(pn, w))
			return
		}
		if err != nil {
			k.Violate("error", "Encrypt-error", err.Error(), w)
			return
		}
		w["ciphertext"] = core.HexClip(ct, 512)
		body := len(ct) - 16
		if len(ct) < 32 || body%16 != 0 || body <= n || body > n+256 {
			k.Violate("size-law", "ciphertext-size-law", fmt.Sprintf("len(ct)=%d for n=%d", len(ct), n), w)
			return
		}
		dec, derr := ref.CBCDecrypt(key, ct[:16], ct[16:])
		if derr != nil || !bytes.Equal(dec[:n], pt) || int(dec[len(dec)-1]) != body-n-1 {
			k.Violate("layout", "not-textbook-CBC-or-bad-pad-octet", fmt.Sprintf("reference CBC decryption: last octet %d, expected %d", dec[len(dec)-1], body-n-1), w)
			return
		}
		if rec.Bytes < 16 {
			k.Violate("entropy", "IV-not-from-random-source", fmt.Sprintf("%d octets drawn", rec.Bytes), w)
			return
		}
		var back []byte
		pn = core.Try(func() { back, err = ci.Decrypt(append([]byte{}, ct...)) })
		if pn != nil || err != nil || !bytes.Equal(back, pt) {
			k.Violate("inverse", "decrypt-of-encrypt-differs", fmt.Sprint(err, pn), w)
			return
		}
		k.Count(fmt.Sprintf("lib_pad_%d", body-n-1), 1)
		k.Distinct(fmt.Sprintf("inv|%d|%d|%s", kl, n%16, sizeBucket(n)))
		if k.WantSample() {
			k.Sample(w)
		}
	})
	// the key buffer is the caller's: successive keys written into ONE scratch buffer (or a wiped buffer followed by a
	// genuinely all-zero key) must give cipher objects keyed with the contents at the time of each NewCrypto call
	// two different keys of one size that agree in a weak fingerprint (a key-schedule cache keyed by a checksum would mix them up)
	c.Family("colliding-keys", c.N(3*len(core.Fingerprints)*2, 3*len(core.Fingerprints)*100), func(k *core.Case) {
		kl := []int{16, 24, 32}[k.Index%3]
		fp := core.Fingerprints[k.Index/3%len(core.Fingerprints)]
		k1 := k.R.Bytes(kl)
		k2 := append([]byte{}, k1...)
		k2[k.R.Intn(kl)] ^= 0x40
		if !core.PatchToCollide(k2, k.R.Intn(kl-fp.Bytes+1), fp, fp.F(k1)) || bytes.Equal(k1, k2) {
			return
		}
		for round, kk := range [][]byte{k1, k2, k1} {
			k.Eval(1)
			ci, err := newCipher(kl, append([]byte{}, kk...))
			if err != nil {
				k.Violate("error", "NewCrypto-error/colliding-keys", err.Error(), nil)
				return
			}
			pt := k.R.Bytes(k.R.Intn(60))
			ct, err := ci.Encrypt(append([]byte{}, pt...))
			if err != nil {
				k.Violate("error", "encrypt-error/colliding-keys", err.Error(), nil)
				return
			}
			raw, derr := ref.CBCDecrypt(kk, ct[:16], ct[16:])
			if derr != nil || !bytes.HasPrefix(raw, pt) {
				k.Violate("history", "cipher-object-keyed-with-a-colliding-earlier-key/"+fp.Name, fmt.Sprintf("object %d does not encrypt under its own key", round+1), M{"key1": core.Hex(k1), "key2": core.Hex(k2)})
				return
			}
		}
		k.Count("colliding_key_pairs", 1)
	})
	c.Family("key-buffer-reuse", c.N(3*40, 3*4000), func(k *core.Case) {
		noiseFor(k)
		kl := []int{16, 24, 32}[k.Index%3]
		buf := make([]byte, kl)
		var objs []interface {
			Encrypt([]byte) ([]byte, error)
			Decrypt([]byte) ([]byte, error)
		}
		var keys [][]byte
		n := 2 + k.R.Intn(3)
		for i := 0; i < n; i++ {
			key := k.R.Bytes(kl)
			if k.R.Chance(1, 3) {
				key = make([]byte, kl) // e.g. a wiped buffer
			}
			copy(buf, key)
			ci, err := newCipher(kl, buf)
			if err != nil {
				k.Violate("key-size", "NewCrypto-refuses-negotiated-size", err.Error(), nil)
				return
			}
			objs = append(objs, ci)
			keys = append(keys, key)
		}
		for i := range buf {
			buf[i] = 0xA5 // the caller scrubs its buffer afterwards
		}
		for i, ci := range objs {
			pt := k.R.Bytes(k.R.Intn(60))
			k.Eval(1)
			ct, err := ci.Encrypt(append([]byte{}, pt...))
			if err != nil || len(ct) < 32 {
				k.Violate("error", "Encrypt-error", fmt.Sprint(err), nil)
				return
			}
			dec, derr := ref.CBCDecrypt(keys[i], ct[:16], ct[16:])
			if derr != nil || !bytes.HasPrefix(dec, pt) {
				k.Violate("history", "cipher-object-keyed-with-other-contents-of-the-callers-key-buffer",
					fmt.Sprintf("object #%d of %d built from one reused key buffer does not encrypt under the key that was in the buffer when it was built", i, n),
					M{"keys": fmt.Sprintf("%x", keys), "object": i})
				return
			}
		}
		k.Count("key_buffer_reuse_cases", 1)
		k.Distinct(fmt.Sprintf("keybuf|%d|%d", kl, n))
	})
	c.Family("iv-freshness", c.N(48, 6000), func(k *core.Case) {
		kl := []int{16, 24, 32}[k.Index%3]
		key := k.R.Bytes(kl)
		seen := map[string]bool{}
		pt := k.R.Bytes(k.R.Intn(64))
		for obj := 0; obj < 4; obj++ {
			ci, _ := newCipher(kl, key)
			for i := 0; i < 100; i++ {
				k.Eval(1)
				ct, err := ci.Encrypt(append([]byte{}, pt...))
				if err != nil {
					k.Violate("error", "Encrypt-error", err.Error(), nil)
					return
				}
				iv := string(ct[:16])
				if seen[iv] {
					k.Violate("entropy", "IV-repeats", fmt.Sprintf("IV %x used twice (object %d, call %d)", ct[:16], obj, i), M{"key": core.Hex(key)})
					return
				}
				seen[iv] = true
			}
		}
		// deterministic streams: different streams => different IVs; same stream => identical ciphertext
		ci, _ := newCipher(kl, key)
		s1, s2 := k.R.U64(), k.R.U64()
		var a, b, a2 []byte
		mon.WithRand(core.NewRng(s1), func() { a, _ = ci.Encrypt(append([]byte{}, pt...)) })
		mon.WithRand(core.NewRng(s2), func() { b, _ = ci.Encrypt(append([]byte{}, pt...)) })
		mon.WithRand(core.NewRng(s1), func() { a2, _ = ci.Encrypt(append([]byte{}, pt...)) })
		k.Eval(3)
		if len(a) < 16 || len(b) < 16 || bytes.Equal(a[:16], b[:16]) {
			k.Violate("entropy", "IV-independent-of-random-stream", "two streams gave the same IV", nil)
			return
		}
		if !bytes.Equal(a, a2) {
			k.Violate("history", "cipher-object-has-state", "same stream, same object, same plaintext: different ciphertext on the second call", M{"first": core.Hex(a), "second": core.Hex(a2)})
			return
		}
		k.Distinct(fmt.Sprintf("iv|%d|%d", kl, k.Index/3%4))
	})
	c.Family("random-source-faults", c.N(81, 1800), func(k *core.Case) {
		kl := []int{16, 24, 32}[k.Index%3]
		mode := k.Index / 3 % 3
		ci, _ := newCipher(kl, k.R.Bytes(kl))
		pt := k.R.Bytes(k.R.Intn(80))
		for failAt := 0; failAt < 5; failAt++ {
			f := &mon.Faulty{Src: mon.RealRand(), FailAt: failAt, Mode: mode, Err: mon.FaultErrors[k.Index/9%len(mon.FaultErrors)]}
			var ct []byte
			var err error
			k.Eval(1)
			pn := core.Try(func() { mon.WithRand(f, func() { ct, err = ci.Encrypt(append([]byte{}, pt...)) }) })
			w := M{"fail_at_read": failAt, "mode": mode, "plaintext_len": len(pt), "error_reported_by_the_source": f.Err.Error()}
			if pn != nil {
				k.Violate("panic", "Encrypt-fault: "+pn.Sig(), "panic", panicData(pn, w))
				return
			}
			if !f.Hit {
				if err != nil {
					k.Violate("error", "error-without-fault", err.Error(), w)
				}
				break
			}
			if err == nil || ct != nil {
				k.Violate("fault", fmt.Sprintf("failing-random-source-produced-a-ciphertext/read%d/mode%d", failAt, mode), fmt.Sprintf("ct=%d octets err=%v", len(ct), err), w)
				return
			}
			k.Count(fmt.Sprintf("fault_at_read_%d", failAt), 1)
			k.Distinct(fmt.Sprintf("fault|%d|%d|%d", kl, failAt, mode))
		}
		// right after the refused encryptions (no collection in between): overlapping Encrypt calls on INDEPENDENT
		// cipher objects, each with its own key and plaintexts; every ciphertext decrypts to its own plaintext
		var wg sync.WaitGroup
		bad := make([]string, 8)
		for g := 0; g < 8; g++ {
			key := k.R.Bytes(kl)
			c2, cerr := newCipher(kl, key)
			if cerr != nil {
				return
			}
			base := k.R.Bytes(40 + 16*g)
			wg.Add(1)
			go func(g int) {
				defer wg.Done()
				defer func() {
					if x := recover(); x != nil {
						bad[g] = fmt.Sprint("panic: ", x)
					}
				}()
				for n := 0; n < 120 && bad[g] == ""; n++ {
					pt := append([]byte{byte(g), byte(n)}, base[:n%len(base)]...)
					ct, err := c2.Encrypt(append([]byte{}, pt...))
					if err != nil || len(ct) < 32 {
						bad[g] = fmt.Sprintf("encrypt #%d: %v (%d octets)", n, err, len(ct))
						return
					}
					raw, derr := ref.CBCDecrypt(key, ct[:16], ct[16:])
					if derr != nil || len(raw) < len(pt)+1 || !bytes.Equal(raw[:len(pt)], pt) || int(raw[len(raw)-1]) != len(raw)-len(pt)-1 {
						bad[g] = fmt.Sprintf("encrypt #%d of goroutine %d: the ciphertext does not decrypt (textbook AES-CBC) to its plaintext + padding", n, g)
					}
				}
			}(g)
		}
		wg.Wait()
		k.Eval(8 * 120)
		for _, b := range bad {
			if b != "" {
				k.Violate("mismatch", "overlapping-encryptions-after-a-refused-one", b, M{"key_len": kl, "mode": mode})
				return
			}
		}
		k.Count("overlapping_encryptions_after_refused_ones", 1)
	})
	// a source that only ever delivers short reads (never fails): the IV must still be 16 fresh octets of the stream
	c.Family("short-read-source", c.N(60, 3000), func(k *core.Case) {
		kl := []int{16, 24, 32}[k.Index%3]
		key := k.R.Bytes(kl)
		ci, _ := newCipher(kl, key)
		pt := k.R.Bytes(k.R.Intn(50))
		seed := k.R.U64()
		var full, short []byte
		var e1, e2 error
		k.Eval(2)
		mon.WithRand(core.NewRng(seed), func() { full, e1 = ci.Encrypt(append([]byte{}, pt...)) })
		mon.WithRand(&chunkReader{src: core.NewRng(seed), max: 1 + k.Index%5}, func() { short, e2 = ci.Encrypt(append([]byte{}, pt...)) })
		if e1 != nil || e2 != nil || !bytes.Equal(full, short) {
			k.Violate("entropy", "short-reads-change-the-ciphertext", fmt.Sprintf("a source delivering at most %d octets per Read gives a different (partly unfilled?) IV/padding: %v %v", 1+k.Index%5, e1, e2),
				M{"full": core.Hex(full), "short": core.Hex(short)})
			return
		}
		k.Count("short_read_sources", 1)
		k.Distinct(fmt.Sprintf("short|%d|%d", kl, 1+k.Index%5))
	})
	c.Family("decrypt-exhaustive", 97*3, func(k *core.Case) {
		kl := []int{16, 24, 32}[k.Index%3]
		n := k.Index / 3
		key := k.R.Bytes(kl)
		ci, _ := newCipher(kl, key)
		judge := func(ct []byte, wantErr bool, wantPT []byte, cls string) {
			k.Eval(1)
			var pt []byte
			var err error
			pn := core.Try(func() { pt, err = ci.Decrypt(append([]byte{}, ct...)) })
			w := M{"key": core.Hex(key), "ciphertext": core.Hex(ct)}
			if pn != nil {
				k.Violate("panic", "Decrypt: "+pn.Sig(), "Decrypt panicked on "+cls, panicData(pn, w))
				return
			}
			if wantErr != (err != nil) {
				k.Violate("decrypt", "decrypt-accepts-or-rejects-wrongly/"+cls, fmt.Sprintf("err=%v, expected error=%v", err, wantErr), w)
				return
			}
			if !wantErr && !bytes.Equal(pt, wantPT) {
				k.Violate("decrypt", "decrypt-wrong-plaintext/"+cls, fmt.Sprintf("%x vs %x", pt, wantPT), w)
				return
			}
			k.Distinct(fmt.Sprintf("dec|%d|%d|%s", kl, n, cls))
		}
		if n < 32 || n%16 != 0 {
			for i := 0; i < 4; i++ {
				judge(k.R.Bytes(n), true, nil, "short-or-misaligned")
			}
			return
		}
		for v := 0; v < 256; v++ {
			body := k.R.Bytes(n - 16)
			body[len(body)-1] = byte(v)
			iv := k.R.Bytes(16)
			ct, _ := ref.CBCEncrypt(key, iv, body)
			if v+1 > len(body) {
				judge(append(iv, ct...), true, nil, "pad-exceeds-body")
			} else {
				judge(append(iv, ct...), false, body[:len(body)-v-1], "valid-pad")
			}
		}
	})
	c.Family("history", c.N(300, 300000), func(k *core.Case) {
		kl := []int{16, 24, 32}[k.Index%3]
		key := k.R.Bytes(kl)
		long, _ := newCipher(kl, key)
		var lastCT []byte
		type heldCT struct{ ct, snap, pt []byte }
		var held []heldCT // ciphertexts the caller still holds: a later call must not change them
		defer func() {
			for i, h := range held {
				if !bytes.Equal(h.ct, h.snap) {
					k.Violate("history", "returned-ciphertext-overwritten-by-later-call", fmt.Sprintf("ciphertext #%d returned earlier by this object changed after later calls", i), M{"key": core.Hex(key)})
					return
				}
				if back, err := long.Decrypt(append([]byte{}, h.ct...)); err != nil || !bytes.Equal(back, h.pt) {
					k.Violate("history", "held-ciphertext-no-longer-decrypts", fmt.Sprint(err), M{"key": core.Hex(key)})
					return
				}
			}
		}()
		steps := 40
		if k.Index < 3 {
			steps = k.N(700, 70000) // one long life per key size: call counts cross 256, 512 (quick) and 65536 (thorough)
			k.Count("long_lived_cipher_object_histories", 1)
		}
		for st := 0; st < steps; st++ {
			if len(held) > 300 {
				held = append(held[:64:64], held[len(held)-64:]...) // keep the oldest and the newest
			}
			fresh, _ := newCipher(kl, key)
			seed := k.R.U64()
			k.Eval(1)
			switch k.R.Intn(3) {
			case 0:
				pt := k.R.Bytes(k.R.Intn(100))
				var a, b []byte
				var ea, eb error
				mon.WithRand(core.NewRng(seed), func() { a, ea = long.Encrypt(append([]byte{}, pt...)) })
				mon.WithRand(core.NewRng(seed), func() { b, eb = fresh.Encrypt(append([]byte{}, pt...)) })
				if ea != nil || eb != nil || !bytes.Equal(a, b) {
					k.Violate("history", "cipher-object-has-state", fmt.Sprintf("step %d: long-lived object encrypts differently from a fresh one", st), M{"key": core.Hex(key), "long": core.Hex(a), "fresh": core.Hex(b)})
					return
				}
				lastCT = a
				held = append(held, heldCT{a, append([]byte{}, a...), pt})
			case 1:
				if lastCT == nil {
					continue
				}
				a, ea := long.Decrypt(append([]byte{}, lastCT...))
				b, eb := fresh.Decrypt(append([]byte{}, lastCT...))
				if (ea == nil) != (eb == nil) || !bytes.Equal(a, b) {
					k.Violate("history", "cipher-object-has-state", fmt.Sprintf("step %d: decrypt differs", st), nil)
					return
				}
			case 2: // garbage in between
				g := k.R.Bytes(k.R.Intn(70))
				var ea, eb error
				pn := core.Try(func() {
					_, ea = long.Decrypt(append([]byte{}, g...))
					_, eb = fresh.Decrypt(append([]byte{}, g...))
				})
				if pn != nil || (ea == nil) != (eb == nil) {
					k.Violate("history", "cipher-object-has-state/garbage", fmt.Sprint(pn), nil)
					return
				}
			}
		}
		k.Distinct(fmt.Sprintf("hist|%d|%d", kl, k.Index/3%8))
	})
	freshFamily(c, "C10", "fresh-process", c.N(1, 30))
	c.Require("colliding_key_pairs", "fresh_process_cases_ok", "long_lived_cipher_object_histories", "wrong_size_key_already_in_use_under_its_own_size", "key_buffer_reuse_cases", "short_read_sources", "fault_at_read_0", "fault_at_read_1", "lib_pad_0", "lib_pad_15")
}

var _ = message.TypeSK
var _ = rand.Reader
