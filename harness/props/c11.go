package props

import (
	"fmt"
	"reflect"

	"github.com/free5gc/ike/message"
	"github.com/free5gc/ike/security"
	"github.com/free5gc/ike/security/dh"
	"github.com/free5gc/ike/security/encr"
	"github.com/free5gc/ike/security/esn"
	"github.com/free5gc/ike/security/integ"
	"github.com/free5gc/ike/security/prf"

	"verifharness/abs"
	"verifharness/bridge"
	"verifharness/core"
	"verifharness/libsa"
	"verifharness/ref"
)

func init() { core.Register("C11", c11) }

// The algorithm table, typed in from RFC 7296 (3.3.2), RFC 3602, RFC 2403/2404, RFC 4868, RFC 2409/3526 and IANA.
var (
	tblIntegKey = map[uint16]int{1: 16, 2: 20, 12: 32}
	tblIntegOut = map[uint16]int{1: 12, 2: 12, 12: 16}
	tblPrfKey   = map[uint16]int{1: 16, 2: 20, 5: 32}
	tblPrfOut   = map[uint16]int{1: 16, 2: 20, 5: 32}
	tblDh       = map[uint16]bool{2: true, 14: true}
	tblEsn      = map[uint16]bool{0: true, 1: true}
)

// decoded describes what a decode function returned.
type decoded struct {
	ok             bool
	id             uint16
	keyLen, outLen int
}

type decFn struct {
	name  string
	ttype uint8
	f     func(t *message.Transform) decoded
}

var decFns = []decFn{
	{"encr.DecodeTransform", 1, func(t *message.Transform) decoded {
		r := encr.DecodeTransform(t)
		if r == nil {
			return decoded{}
		}
		return decoded{true, r.TransformID(), r.GetKeyLength(), 0}
	}},
	{"encr.DecodeTransformChildSA", 1, func(t *message.Transform) decoded {
		r := encr.DecodeTransformChildSA(t)
		if r == nil {
			return decoded{}
		}
		return decoded{true, r.TransformID(), r.GetKeyLength(), 0}
	}},
	{"integ.DecodeTransform", 3, func(t *message.Transform) decoded {
		r := integ.DecodeTransform(t)
		if r == nil {
			return decoded{}
		}
		return decoded{true, r.TransformID(), r.GetKeyLength(), r.GetOutputLength()}
	}},
	{"integ.DecodeTransformChildSA", 3, func(t *message.Transform) decoded {
		r := integ.DecodeTransformChildSA(t)
		if r == nil {
			return decoded{}
		}
		return decoded{true, r.TransformID(), r.GetKeyLength(), 0}
	}},
	{"prf.DecodeTransform", 2, func(t *message.Transform) decoded {
		r := prf.DecodeTransform(t)
		if r == nil {
			return decoded{}
		}
		return decoded{true, r.TransformID(), r.GetKeyLength(), r.GetOutputLength()}
	}},
	{"dh.DecodeTransform", 4, func(t *message.Transform) decoded {
		r := dh.DecodeTransform(t)
		if r == nil {
			return decoded{}
		}
		return decoded{true, r.TransformID(), 0, 0}
	}},
	{"esn.DecodeTransform", 5, func(t *message.Transform) decoded {
		r, err := esn.DecodeTransform(t)
		if err != nil {
			return decoded{}
		}
		return decoded{true, r.TransformID(), 0, 0}
	}},
}

// expect says what the RFC table prescribes for a transform given to decode function fi.
// judged=false: the property prescribes nothing (a key-length attribute on a fixed-size algorithm).
func expect(fi int, t abs.Transform) (want decoded, judged bool) {
	keyAttr := t.HasAttr && t.TV && t.AttrType == 14
	switch fi {
	case 0, 1:
		if t.ID == 12 && keyAttr && (t.AttrVal == 128 || t.AttrVal == 192 || t.AttrVal == 256) {
			return decoded{true, 12, int(t.AttrVal) / 8, 0}, true
		}
		return decoded{}, true
	case 2:
		if k, ok := tblIntegKey[t.ID]; ok {
			return decoded{true, t.ID, k, tblIntegOut[t.ID]}, !t.HasAttr
		}
	case 3:
		if k, ok := tblIntegKey[t.ID]; ok {
			return decoded{true, t.ID, k, 0}, !t.HasAttr
		}
	case 4:
		if k, ok := tblPrfKey[t.ID]; ok {
			return decoded{true, t.ID, k, tblPrfOut[t.ID]}, !t.HasAttr
		}
	case 5:
		if tblDh[t.ID] {
			return decoded{true, t.ID, 0, 0}, !t.HasAttr
		}
	case 6:
		if tblEsn[t.ID] {
			return decoded{true, t.ID, 0, 0}, !t.HasAttr
		}
	}
	return decoded{}, true
}

var keyLenVals = []uint16{0, 1, 64, 127, 128, 129, 191, 192, 193, 255, 256, 257, 512, 65535}

func attrClasses(r *core.Rng, full bool) []abs.Transform {
	var l []abs.Transform
	l = append(l, abs.Transform{}) // absent
	for _, v := range keyLenVals {
		l = append(l, abs.Transform{HasAttr: true, TV: true, AttrType: 14, AttrVal: v})
	}
	nrand := 4
	if full {
		nrand = 64
	}
	for i := 0; i < nrand; i++ {
		l = append(l, abs.Transform{HasAttr: true, TV: true, AttrType: 14, AttrVal: r.U16()})
	}
	for _, at := range []uint16{0, 1, 13, 15, 142, 270, 14 + 128*7, 14 + 128*255, 0x7fff} { // foreign types incl. 14+128k
		for _, v := range []uint16{128, 256} {
			l = append(l, abs.Transform{HasAttr: true, TV: true, AttrType: at, AttrVal: v})
		}
	}
	// key length in TLV form
	l = append(l, abs.Transform{HasAttr: true, TV: false, AttrType: 14, AttrBytes: abs.HB{0, 128}})
	l = append(l, abs.Transform{HasAttr: true, TV: false, AttrType: 14, AttrBytes: abs.HB{1, 0}})
	l = append(l, abs.Transform{HasAttr: true, TV: false, AttrType: 14, AttrBytes: abs.HB{128}})
	// TLV values whose LENGTH looks like a key size (in octets or in bits)
	for _, n := range []int{16, 24, 32, 128, 192, 256} {
		l = append(l, abs.Transform{HasAttr: true, TV: false, AttrType: 14, AttrBytes: make(abs.HB, n)})
	}
	return l
}

func throughWire(t abs.Transform) (*message.Transform, error) {
	m := &abs.Msg{Major: 2, Exch: 34, Payloads: []abs.Payload{{Kind: abs.PSA, SA: &abs.SA{Proposals: []abs.Proposal{{Num: 1, Proto: 1, Transforms: []abs.Transform{t}}}}}}}
	lm, err := bridge.BuildMsg(m)
	if err != nil {
		return nil, err
	}
	b, err := lm.Encode()
	if err != nil {
		return nil, err
	}
	back := new(message.IKEMessage)
	if err := back.Decode(b); err != nil {
		return nil, err
	}
	pr := back.Payloads[0].(*message.SecurityAssociation).Proposals[0]
	for _, l := range []message.TransformContainer{pr.EncryptionAlgorithm, pr.PseudorandomFunction, pr.IntegrityAlgorithm, pr.DiffieHellmanGroup, pr.ExtendedSequenceNumbers} {
		if len(l) == 1 {
			return l[0], nil
		}
	}
	return nil, fmt.Errorf("transform lost on the wire")
}

func c11Judge(k *core.Case, fi int, t abs.Transform, lt *message.Transform, path string) {
	fn := decFns[fi]
	k.Eval(1)
	var got decoded
	pn := core.Try(func() { got = fn.f(lt) })
	w := M{"function": fn.name, "transform": t, "path": path}
	if pn != nil {
		k.Violate("panic", fn.name+": "+pn.Sig(), "panic", panicData(pn, w))
		return
	}
	want, judged := expect(fi, t)
	if got.ok && (got.id != t.ID) {
		k.Violate("mapping", "mapped-to-different-identifier/"+fn.name, fmt.Sprintf("transform id %d decoded to algorithm id %d", t.ID, got.id), w)
		return
	}
	if judged {
		if got != want {
			k.Violate("mapping", fmt.Sprintf("wrong-mapping/%s/supported=%v", fn.name, got.ok), fmt.Sprintf("got %+v, RFC table says %+v", got, want), w)
			return
		}
	} else if got.ok && got != want {
		k.Violate("mapping", "wrong-lengths/"+fn.name, fmt.Sprintf("got %+v, RFC table says %+v", got, want), w)
		return
	} else {
		k.Count("attribute_on_fixed_size_algorithm(outcome not judged)", 1)
	}
	if got.ok {
		k.Count("supported_"+fn.name, 1)
		if k.WantSample() {
			k.Sample(M{"function": fn.name, "transform": t, "path": path, "decoded": fmt.Sprintf("%+v", got)})
		}
	} else if k.WantSample() && k.Index%4099 == 7 {
		k.Sample(M{"function": fn.name, "transform": t, "path": path, "decoded": "unsupported"})
	}
}

func c11(c *core.Ctx) {
	c.Info("rule", "EXHAUSTIVE (thorough) / 1-in-16 stratified slice with all supported ids and their +-2 neighbours (quick) over transform id 0..65535 x attribute classes {absent; key length TV with value in {0,1,64,127,128,129,191,192,193,255,256,257,512,65535} + random; foreign attribute types incl. 14+128k; key length in TLV form} "+
		"x 7 decode functions x {direct, via SA payload wire round trip}, compared with an algorithm table typed in from the RFCs; advertised names -> ToTransform -> wire -> DecodeTransform; all single-choice IKE (3x3x3x2) and Child (3x3x3x2) proposals through ToProposal / NewIKESAKey / NewChildSAKeyByProposal; "+
		"proposals containing one unsupported transform must fail with an error and nil result; distinct = (function, id class, attribute class, path, outcome)")
	c.Info("assumptions", "transforms are generated as consistent structs (no attribute => zero type/value; TLV => zero TV value) || for fixed-size algorithms carrying a key-length attribute, and Child proposals without integrity, the property prescribes nothing: outcome recorded, not judged")
	if c.Thorough() {
		c.Info("exhaustive", "true")
	}
	near := map[uint16]bool{}
	for _, id := range []int{0, 1, 2, 5, 12, 14} {
		for d := -2; d <= 2; d++ {
			if id+d >= 0 {
				near[uint16(id+d)] = true
			}
		}
	}
	c.Family("ids", 65536, func(k *core.Case) {
		id := uint16(k.Index)
		if !k.Thorough() && !near[id] && k.Index%16 != int(k.Seed%16) && id != 65535 && id != 256+12 && id != 12+128 {
			return
		}
		idc := "other"
		if near[id] {
			idc = fmt.Sprint(id)
		}
		for ci, a := range attrClasses(k.R, k.Thorough() || near[id]) {
			for tt := uint8(1); tt <= 5; tt++ {
				t := a
				t.Type, t.ID = tt, id
				direct := bridge.BuildTransform(t)
				var wired *message.Transform
				var werr error
				if near[id] || ci < 3 || k.Index%64 == 0 || k.Thorough() {
					wired, werr = throughWire(t)
					if werr != nil {
						k.Violate("error", "transform-wire-roundtrip-failed", werr.Error(), M{"transform": t})
						continue
					}
				}
				for fi, fn := range decFns {
					if fn.ttype != tt {
						continue
					}
					c11Judge(k, fi, t, direct, "direct")
					if wired != nil {
						c11Judge(k, fi, t, wired, "wire")
					}
					k.Distinct(fmt.Sprintf("%s|%s|a%d|%v", fn.name, idc, minI(ci, 60), wired != nil))
				}
			}
		}
	})
	// advertised algorithms by name
	c.Family("names", 1, func(k *core.Case) {
		chk := func(name string, tr *message.Transform, fi int, wantID uint16, wantKey, wantOut int) {
			k.Eval(1)
			if tr == nil {
				k.Violate("mapping", "advertised-name-unknown/"+name, "", nil)
				return
			}
			at := bridge.ObserveTransform(tr)
			wired, err := throughWire(at)
			if err != nil {
				k.Violate("error", "advertised-transform-does-not-survive-the-wire/"+name, err.Error(), M{"transform": at})
				return
			}
			for _, lt := range []*message.Transform{tr, wired} {
				got := decFns[fi].f(lt)
				want := decoded{true, wantID, wantKey, wantOut}
				if got != want {
					k.Violate("mapping", "advertised-roundtrip/"+name, fmt.Sprintf("got %+v want %+v", got, want), M{"transform": at})
					return
				}
			}
			k.Count("advertised_ok", 1)
			k.Distinct("name|" + name + "|" + decFns[fi].name)
			// the caller owns the transform it was handed: editing it (e.g. to build a variant proposal) must not
			// change what the library hands out next time (checked by the second pass)
			scribbleTransform(tr)
			k.Count("returned_transform_edited_by_caller", 1)
		}
		for pass := 0; pass < 2; pass++ {
			c11Names(k, chk)
		}
		for _, n := range []string{"", "ENCR_AES_CBC", "ENCR_AES_CBC_512", "AUTH_HMAC_SHA2_256", "PRF_HMAC_SHA2_512", "DH_1536_BIT_MODP", "ESN"} {
			e1, e2, e3, e4, e5 := encr.StrToType(n), integ.StrToType(n), prf.StrToType(n), dh.StrToType(n), encr.StrToKType(n)
			_, e6 := esn.StrToType(n)
			if e1 != nil || e2 != nil || e3 != nil || e4 != nil || e5 != nil || e6 == nil {
				k.Violate("mapping", "unknown-name-accepted", n, nil)
			}
		}
	})
	c11Proposals(c)
	c11OfferedLists(c)
	c11ForeignTransformTypes(c)
	c11FirstCalls(c)
}

func scribbleTransform(t *message.Transform) {
	if t == nil {
		return
	}
	t.TransformType ^= 0xEE
	t.TransformID ^= 0x5555
	t.AttributePresent = !t.AttributePresent
	t.AttributeFormat ^= 1
	t.AttributeType ^= 0x2aaa
	t.AttributeValue ^= 0x1234
	t.VariableLengthAttributeValue = append(t.VariableLengthAttributeValue, 0xEE)
}

func scribbleProposal(p *message.Proposal) {
	for _, l := range []message.TransformContainer{p.EncryptionAlgorithm, p.PseudorandomFunction, p.IntegrityAlgorithm, p.DiffieHellmanGroup, p.ExtendedSequenceNumbers} {
		for _, t := range l {
			scribbleTransform(t)
		}
	}
	p.ProposalNumber ^= 0xEE
	p.ProtocolID ^= 0xEE
	for i := range p.SPI {
		p.SPI[i] ^= 0xEE
	}
}

func c11Names(k *core.Case, chk func(name string, tr *message.Transform, fi int, wantID uint16, wantKey, wantOut int)) {
	{
		for kl, n := range libsa.EncrNames {
			if t := encr.StrToType(n); t != nil {
				tr, _ := encr.ToTransform(t)
				chk(n, tr, 0, 12, kl, 0)
				if t.GetKeyLength() != kl {
					k.Violate("mapping", "advertised-lengths/"+n, "", nil)
				}
			} else {
				k.Violate("mapping", "advertised-name-unknown/"+n, "", nil)
			}
			if t := encr.StrToKType(n); t != nil {
				tr, _ := encr.ToTransformChildSA(t)
				chk(n+"(child)", tr, 1, 12, kl, 0)
			} else {
				k.Violate("mapping", "advertised-name-unknown/"+n+"(child)", "", nil)
			}
		}
		for i, n := range libsa.IntegNames {
			id := []uint16{1, 2, 12}[i]
			if t := integ.StrToType(n); t != nil {
				chk(n, integ.ToTransform(t), 2, id, tblIntegKey[id], tblIntegOut[id])
			} else {
				k.Violate("mapping", "advertised-name-unknown/"+n, "", nil)
			}
			if t := integ.StrToKType(n); t != nil {
				chk(n+"(child)", integ.ToTransformChildSA(t), 3, id, tblIntegKey[id], 0)
			} else {
				k.Violate("mapping", "advertised-name-unknown/"+n+"(child)", "", nil)
			}
		}
		for i, n := range libsa.PrfNames {
			id := []uint16{1, 2, 5}[i]
			if t := prf.StrToType(n); t != nil {
				chk(n, prf.ToTransform(t), 4, id, tblPrfKey[id], tblPrfOut[id])
			} else {
				k.Violate("mapping", "advertised-name-unknown/"+n, "", nil)
			}
		}
		for i, n := range libsa.DhNames {
			id := []uint16{2, 14}[i]
			if t := dh.StrToType(n); t != nil {
				chk(n, dh.ToTransform(t), 5, id, 0, 0)
			} else {
				k.Violate("mapping", "advertised-name-unknown/"+n, "", nil)
			}
		}
		for i, n := range []string{"ESN_DISABLE", "ESN_ENABLE"} {
			t, err := esn.StrToType(n)
			if err != nil {
				k.Violate("mapping", "advertised-name-unknown/"+n, "", nil)
				continue
			}
			chk(n, esn.ToTransform(t), 6, uint16(i), 0, 0)
			if t.GetNeedESN() != (i == 1) {
				k.Violate("mapping", "esn-flag-wrong/"+n, "", nil)
			}
		}
	}
}

// ---------------------------------------------------------------------------
// first call in a fresh process: the mapping must not depend on which entry point of an algorithm package happens to
// be used first (registration done lazily, or by another entry point).  FirstCall(i) is run by `vharness firstcall i`
// as the very first use of the library in that process; the family below starts one process per entry.

type firstCall struct {
	name string
	f    func() string // "" = as the table says
}

func firstCalls() []firstCall {
	var l []firstCall
	tv := func(typ uint8, id uint16, keyBits int) *message.Transform {
		t := &message.Transform{TransformType: typ, TransformID: id}
		if keyBits > 0 {
			t.AttributePresent, t.AttributeFormat, t.AttributeType, t.AttributeValue = true, 1, 14, uint16(keyBits)
		}
		return t
	}
	dec := func(fi int, t *message.Transform, want decoded) {
		l = append(l, firstCall{fmt.Sprintf("%s(id %d, key bits %d)", decFns[fi].name, t.TransformID, t.AttributeValue), func() string {
			if got := decFns[fi].f(t); got != want {
				return fmt.Sprintf("got %+v want %+v", got, want)
			}
			return ""
		}})
	}
	for _, kb := range []int{128, 192, 256} {
		dec(0, tv(1, 12, kb), decoded{true, 12, kb / 8, 0})
		dec(1, tv(1, 12, kb), decoded{true, 12, kb / 8, 0})
	}
	for _, id := range []uint16{1, 2, 12} {
		dec(2, tv(3, id, 0), decoded{true, id, tblIntegKey[id], tblIntegOut[id]})
		dec(3, tv(3, id, 0), decoded{true, id, tblIntegKey[id], 0})
	}
	for _, id := range []uint16{1, 2, 5} {
		dec(4, tv(2, id, 0), decoded{true, id, tblPrfKey[id], tblPrfOut[id]})
	}
	for _, id := range []uint16{2, 14} {
		dec(5, tv(4, id, 0), decoded{true, id, 0, 0})
	}
	for _, id := range []uint16{0, 1} {
		dec(6, tv(5, id, 0), decoded{true, id, 0, 0})
	}
	name := func(n string, f func() bool) {
		l = append(l, firstCall{n, func() string {
			if !f() {
				return "advertised name not known"
			}
			return ""
		}})
	}
	for kl, n := range libsa.EncrNames {
		n, kl := n, kl
		name("encr.StrToType("+n+")", func() bool { t := encr.StrToType(n); return t != nil && t.GetKeyLength() == kl })
		name("encr.StrToKType("+n+")", func() bool { t := encr.StrToKType(n); return t != nil && t.GetKeyLength() == kl })
	}
	for _, n := range libsa.IntegNames {
		n := n
		name("integ.StrToType("+n+")", func() bool { return integ.StrToType(n) != nil })
		name("integ.StrToKType("+n+")", func() bool { return integ.StrToKType(n) != nil })
	}
	for _, n := range libsa.PrfNames {
		n := n
		name("prf.StrToType("+n+")", func() bool { return prf.StrToType(n) != nil })
	}
	for _, n := range libsa.DhNames {
		n := n
		name("dh.StrToType("+n+")", func() bool { return dh.StrToType(n) != nil })
	}
	for _, id := range []uint16{1, 2, 12} {
		id := id
		l = append(l, firstCall{fmt.Sprintf("NewChildSAKeyByProposal(AES-CBC-128, integ %d, no ESN)", id), func() string {
			p := &message.Proposal{ProposalNumber: 1, ProtocolID: 3, SPI: []byte{1, 2, 3, 4},
				EncryptionAlgorithm:     message.TransformContainer{tv(1, 12, 128)},
				IntegrityAlgorithm:      message.TransformContainer{tv(3, id, 0)},
				ExtendedSequenceNumbers: message.TransformContainer{tv(5, 0, 0)}}
			ck, err := security.NewChildSAKeyByProposal(p)
			if err != nil || ck == nil || ck.IntegKInfo == nil || ck.IntegKInfo.TransformID() != id || ck.EncrKInfo.GetKeyLength() != 16 {
				return fmt.Sprintf("advertised ESP proposal refused / mapped wrongly: %v", err)
			}
			return ""
		}})
	}
	l = append(l, firstCall{"NewIKESAKey(AES-CBC-256, SHA2-256-128, PRF-SHA2-256, MODP-2048)", func() string {
		p := &message.Proposal{ProposalNumber: 1, ProtocolID: 1,
			EncryptionAlgorithm:  message.TransformContainer{tv(1, 12, 256)},
			PseudorandomFunction: message.TransformContainer{tv(2, 5, 0)},
			IntegrityAlgorithm:   message.TransformContainer{tv(3, 12, 0)},
			DiffieHellmanGroup:   message.TransformContainer{tv(4, 14, 0)}}
		key, pub, err := security.NewIKESAKey(p, make([]byte, 256), []byte("nonces"), 1, 2)
		if err != nil || key == nil || len(pub) != 256 || len(key.SK_ei) != 32 || len(key.SK_ai) != 32 || len(key.SK_d) != 32 {
			return fmt.Sprintf("advertised IKE proposal refused / mapped wrongly: %v", err)
		}
		return ""
	}})
	return l
}

func init() {
	for _, fc := range firstCalls() {
		fc := fc
		registerFresh("C11", freshCase{fc.name, func(rep int) string { return fc.f() }})
	}
}

func c11FirstCalls(c *core.Ctx) {
	freshFamily(c, "C11", "first-call-in-a-fresh-process", 1)
	c.Require("fresh_process_cases_ok")
}

// several single-choice proposals in ONE SA payload whose transform containers are one-element VIEWS of shared
// "offered" lists (all ciphers in one list, all PRFs in another, ...): each proposal must travel and convert back to
// its own algorithms
func c11OfferedLists(c *core.Ctx) {
	c.Family("proposals-as-views-of-offered-lists", c.N(60, 6000), func(k *core.Case) {
		n := 2 + k.R.Intn(3)
		type choice struct{ e, i, p, d int }
		var cs []choice
		var encrL, prfL, integL, dhL message.TransformContainer
		for j := 0; j < n; j++ {
			ch := choice{k.R.Intn(3), k.R.Intn(3), k.R.Intn(3), k.R.Intn(2)}
			cs = append(cs, ch)
			src := newInfoKey(ch.e, ch.i, ch.p, ch.d)
			pr, err := src.ToProposal()
			if err != nil {
				k.Violate("error", "ToProposal-error", err.Error(), nil)
				return
			}
			encrL = append(encrL, pr.EncryptionAlgorithm...)
			prfL = append(prfL, pr.PseudorandomFunction...)
			integL = append(integL, pr.IntegrityAlgorithm...)
			dhL = append(dhL, pr.DiffieHellmanGroup...)
		}
		if len(encrL) != n || len(prfL) != n || len(integL) != n || len(dhL) != n {
			return
		}
		sa := &message.SecurityAssociation{}
		for j := 0; j < n; j++ {
			sa.Proposals = append(sa.Proposals, &message.Proposal{ProposalNumber: uint8(j + 1), ProtocolID: 1,
				EncryptionAlgorithm: encrL[j : j+1], PseudorandomFunction: prfL[j : j+1], IntegrityAlgorithm: integL[j : j+1], DiffieHellmanGroup: dhL[j : j+1]})
		}
		k.Eval(1)
		msg := message.NewMessage(1, 0, message.IKE_SA_INIT, false, true, 0, message.IKEPayloadContainer{sa})
		var wire []byte
		var err error
		if pn := core.Try(func() { wire, err = msg.Encode() }); pn != nil || err != nil {
			k.Violate("error", "offered-lists-encode-error", fmt.Sprint(err, pn), nil)
			return
		}
		back, derr, dp := libDecodeKeep(wire)
		if derr != nil || dp != nil {
			k.Violate("error", "offered-lists-decode-error", fmt.Sprint(derr, dp), M{"wire": core.Hex(wire)})
			return
		}
		bsa, ok := back.Payloads[0].(*message.SecurityAssociation)
		if !ok || len(bsa.Proposals) != n {
			k.Violate("mapping", "offered-lists-proposal-count", "", M{"wire": core.Hex(wire)})
			return
		}
		for j, ch := range cs {
			for which, pr := range []*message.Proposal{bsa.Proposals[j], sa.Proposals[j]} {
				key, _, kerr := security.NewIKESAKey(pr, make([]byte, []int{128, 256}[ch.d]), []byte("nonces"), 1, 2)
				if kerr != nil || key == nil || key.EncrInfo.GetKeyLength() != []int{16, 24, 32}[ch.e] || key.IntegInfo.TransformID() != []uint16{1, 2, 12}[ch.i] ||
					key.PrfInfo.TransformID() != []uint16{1, 2, 5}[ch.p] || key.DhInfo.TransformID() != []uint16{2, 14}[ch.d] {
					k.Violate("mapping", "proposal-built-from-a-shared-offered-list-does-not-convert-back", fmt.Sprintf("proposal %d of %d (%s): %v", j+1, n, []string{"after the wire", "the caller's own object after encoding"}[which], kerr), M{"wire": core.Hex(wire), "choices": fmt.Sprint(cs)})
					return
				}
			}
		}
		k.Count("proposals_as_views_of_offered_lists", 1)
		k.Distinct(fmt.Sprintf("offered|%d", n))
	})
	c.Require("proposals_as_views_of_offered_lists")
}

// a received proposal that carries, besides the advertised single choices, a transform of a TYPE this version does
// not know (0, 6..255, e.g. RFC 9370 additional key exchanges) at any position: the SA built from it has exactly
// the advertised algorithms of the proposal - or building it fails - never silently other ones
func c11ForeignTransformTypes(c *core.Ctx) {
	c.Family("foreign-transform-types", c.N(240, 24000), func(k *core.Case) {
		child := k.Index%2 == 1
		e, i, p, d := k.R.Intn(3), k.R.Intn(3), k.R.Intn(3), k.R.Intn(2)
		var ap abs.Proposal
		if child {
			src := newChild(e, i+1)
			src.DhInfo = nil
			if k.R.Bool() {
				src.DhInfo = dh.StrToType(libsa.DhNames[d])
			} else {
				d = -1
			}
			en, _ := esn.StrToType("ESN_DISABLE")
			src.EsnInfo = en
			pr, err := src.ToProposal()
			if err != nil {
				return
			}
			ap = bridge.ObserveProposal(pr)
		} else {
			pr, err := newInfoKey(e, i, p, d).ToProposal()
			if err != nil {
				return
			}
			ap = bridge.ObserveProposal(pr)
		}
		ap.Num, ap.Proto = 1, map[bool]uint8{false: 1, true: 3}[child]
		if child {
			ap.SPI = abs.HB{1, 2, 3, 4}
		}
		ft := abs.Transform{Type: uint8(k.R.Pick(0, 6, 7, 8, 12, 200, 255)), ID: uint16(k.R.Pick(0, 1, 2, 12, 14, 35, 36, 65535))}
		if k.R.Bool() {
			ft.HasAttr, ft.TV, ft.AttrType, ft.AttrVal = true, true, 14, uint16(k.R.Pick(128, 256))
		}
		pos := k.R.Intn(len(ap.Transforms) + 1)
		ap.Transforms = append(ap.Transforms[:pos:pos], append([]abs.Transform{ft}, ap.Transforms[pos:]...)...)
		wire, err := ref.EncodeMsg(&abs.Msg{Major: 2, Exch: 34, Payloads: []abs.Payload{{Kind: abs.PSA, SA: &abs.SA{Proposals: []abs.Proposal{ap}}}}}, nil)
		if err != nil {
			return
		}
		k.Eval(1)
		w := M{"proposal": ap, "wire": core.Hex(wire), "foreign_transform_at": pos, "child": child}
		back, derr, dp := libDecodeKeep(wire)
		if dp != nil {
			k.Violate("panic", "foreign-transform: "+dp.Sig(), "panic", panicData(dp, w))
			return
		}
		if derr != nil {
			k.Count("proposal_with_foreign_transform_type_refused_at_decode", 1)
			return
		}
		rp := back.Payloads[0].(*message.SecurityAssociation).Proposals[0]
		pn := core.Try(func() {
			if child {
				ck, err := security.NewChildSAKeyByProposal(rp)
				if err != nil || ck == nil {
					k.Count("proposal_with_foreign_transform_type_refused", 1)
					return
				}
				okDh := (d < 0 && ck.DhInfo == nil) || (d >= 0 && ck.DhInfo != nil && ck.DhInfo.TransformID() == []uint16{2, 14}[d])
				if ck.EncrKInfo == nil || ck.EncrKInfo.GetKeyLength() != []int{16, 24, 32}[e] || ck.IntegKInfo == nil || ck.IntegKInfo.TransformID() != []uint16{1, 2, 12}[i] || !okDh {
					k.Violate("mapping", "received-transform-not-honoured-when-a-foreign-transform-type-is-present/child", fmt.Sprintf("integ=%v dh=%v", ck.IntegKInfo != nil, ck.DhInfo != nil), w)
					return
				}
			} else {
				key, _, err := security.NewIKESAKey(rp, make([]byte, []int{128, 256}[d]), []byte("nonces"), 1, 2)
				if err != nil || key == nil {
					k.Count("proposal_with_foreign_transform_type_refused", 1)
					return
				}
				if key.EncrInfo.GetKeyLength() != []int{16, 24, 32}[e] || key.IntegInfo.TransformID() != []uint16{1, 2, 12}[i] || key.PrfInfo.TransformID() != []uint16{1, 2, 5}[p] || key.DhInfo.TransformID() != []uint16{2, 14}[d] {
					k.Violate("mapping", "received-transform-not-honoured-when-a-foreign-transform-type-is-present/ike", "", w)
					return
				}
			}
			k.Count("proposals_with_a_foreign_transform_type_built", 1)
		})
		if pn != nil {
			k.Violate("panic", "foreign-transform-build: "+pn.Sig(), "panic", panicData(pn, w))
		}
	})
	c.Require("proposals_with_a_foreign_transform_type_built")
}

func c11Proposals(c *core.Ctx) {
	// single-choice proposals
	c.Family("ike-proposals", 54, func(k *core.Case) {
		e, i, p, d := k.Index%3, (k.Index/3)%3, (k.Index/9)%3, (k.Index/27)%2
		k.Eval(1)
		src := newInfoKey(e, i, p, d)
		pn := core.Try(func() {
			prop, err := src.ToProposal()
			if err != nil {
				k.Violate("error", "ToProposal-error", err.Error(), nil)
				return
			}
			ap := bridge.ObserveProposal(prop)
			// through the wire
			m := &abs.Msg{Major: 2, Exch: 34, Payloads: []abs.Payload{{Kind: abs.PSA, SA: &abs.SA{Proposals: []abs.Proposal{ap}}}}}
			wire, err, _ := libEncode(m)
			if err != nil {
				k.Violate("error", "proposal-encode-error", err.Error(), nil)
				return
			}
			back, err, _ := libDecodeKeep(wire)
			if err != nil {
				k.Violate("error", "proposal-decode-error", err.Error(), nil)
				return
			}
			rp := back.Payloads[0].(*message.SecurityAssociation).Proposals[0]
			peerPub := src.DhInfo.GetPublicValue(bigFromInt(99991))
			key, pub, err := security.NewIKESAKey(rp, peerPub, []byte("Ni|Nr........"), 7, 8)
			if err != nil || key == nil || pub == nil {
				k.Violate("mapping", "supported-proposal-refused", fmt.Sprint(err), M{"proposal": ap})
				return
			}
			if key.EncrInfo.TransformID() != 12 || key.EncrInfo.GetKeyLength() != []int{16, 24, 32}[e] ||
				key.IntegInfo.TransformID() != []uint16{1, 2, 12}[i] || key.PrfInfo.TransformID() != []uint16{1, 2, 5}[p] ||
				key.DhInfo.TransformID() != []uint16{2, 14}[d] {
				k.Violate("mapping", "proposal-roundtrip-changes-algorithms", "", M{"proposal": ap})
				return
			}
			if len(key.SK_ei) != []int{16, 24, 32}[e] || len(key.SK_ai) != tblIntegKey[[]uint16{1, 2, 12}[i]] || len(key.SK_d) != tblPrfKey[[]uint16{1, 2, 5}[p]] || len(pub) != []int{128, 256}[d] {
				k.Violate("mapping", "proposal-roundtrip-key-lengths", "", M{"proposal": ap})
				return
			}
			k.Count("ike_proposals_ok", 1)
			k.Distinct(fmt.Sprintf("ikeprop|%d%d%d%d", e, i, p, d))
			rpObs := bridge.ObserveProposal(rp) // what was received, observed BEFORE the objects are recycled below
			// the caller edits the proposal it was handed, then asks again (same SA object and a fresh one)
			scribbleProposal(prop)
			scribbleProposal(rp)
			for which, s2 := range []*security.IKESAKey{src, newInfoKey(e, i, p, d)} {
				p2, err := s2.ToProposal()
				if err != nil {
					k.Violate("error", "ToProposal-error-after-caller-edit", err.Error(), nil)
					return
				}
				if a2 := bridge.ObserveProposal(p2); !reflect.DeepEqual(a2.Transforms, ap.Transforms) {
					k.Violate("history", "proposal-depends-on-edits-to-an-earlier-returned-proposal", fmt.Sprintf("ToProposal (object %d) after the caller edited the proposal returned before", which), M{"first": ap, "second": a2})
					return
				}
			}
			k.Count("returned_proposal_edited_by_caller", 1)
			// now break one transform at a time: SA construction must fail with an error and nil result
			for slot := 0; slot < 4; slot++ {
				for _, how := range []string{"id+1000", "id=0xffff", "keylen-attr"} {
					bp := abs.Proposal{Num: rpObs.Num, Proto: rpObs.Proto, SPI: rpObs.SPI, Transforms: append([]abs.Transform{}, rpObs.Transforms...)}
					hit := false
					for ti := range bp.Transforms {
						t := &bp.Transforms[ti]
						if int(t.Type) != []int{1, 3, 2, 4}[slot] {
							continue
						}
						hit = true
						switch how {
						case "id+1000":
							t.ID += 1000
						case "id=0xffff":
							t.ID = 0xffff
						case "keylen-attr":
							if t.Type != 1 {
								continue
							}
							t.AttrVal = uint16(k.R.Pick(0, 64, 129, 384, 512, 142))
							if k.R.Bool() {
								t.AttrType, t.AttrVal = 142, 128
							}
						}
					}
					if how == "keylen-attr" && slot != 0 {
						continue
					}
					if !hit {
						k.Violate("harness", "c11-breakage-loop-found-no-transform-to-break", "self-check of the workload", nil)
						return
					}
					k.Eval(1)
					bk, bpub, berr := security.NewIKESAKey(bridge.BuildProposal(bp), peerPub, []byte("nonces"), 1, 2)
					if berr == nil || bk != nil || bpub != nil {
						k.Violate("mapping", fmt.Sprintf("unsupported-proposal-accepted/slot%d/%s", slot, how), fmt.Sprintf("key=%v pub=%d err=%v", bk != nil, len(bpub), berr), M{"proposal": bp})
						return
					}
					k.Count("unsupported_ike_proposal_refused", 1)
				}
			}
		})
		if pn != nil {
			k.Violate("panic", "ike-proposal: "+pn.Sig(), "panic", panicData(pn, nil))
		}
	})
	c.Family("child-proposals", 3*4*3*2*2, func(k *core.Case) {
		e, i, d, es := k.Index%3, (k.Index/3)%4, (k.Index/12)%3, (k.Index/36)%2
		k.Eval(1)
		pn := core.Try(func() {
			src := newChild(e, i)
			if k.Index/72%2 == 1 {
				// the descriptor the application holds for this algorithm is the one it looked up BY NAME (the advertised
				// set): the same algorithm, the same key length
				src.EncrKInfo = encr.StrToType(libsa.EncrNames[[]int{16, 24, 32}[e]])
				k.Count("child_sa_encryption_descriptor_looked_up_by_name", 1)
			}
			src.DhInfo = nil // (newChild varies the fields a derivation must not depend on; here the proposal content is the subject)
			if d > 0 {
				src.DhInfo = dh.StrToType(libsa.DhNames[d-1])
			}
			en, _ := esn.StrToType([]string{"ESN_DISABLE", "ESN_ENABLE"}[es])
			src.EsnInfo = en
			prop, err := src.ToProposal()
			if err != nil {
				k.Violate("error", "child-ToProposal-error", err.Error(), nil)
				return
			}
			ap := bridge.ObserveProposal(prop)
			// the proposal announces exactly the algorithms of the SA (integrity and PFS group only when set), whatever
			// the constructor later makes of it
			wantT := map[uint8]uint16{1: 12, 5: uint16(es)}
			if i > 0 {
				wantT[3] = []uint16{1, 2, 12}[i-1]
			}
			if d > 0 {
				wantT[4] = []uint16{2, 14}[d-1]
			}
			gotT := map[uint8]uint16{}
			for _, t := range ap.Transforms {
				if _, dup := gotT[t.Type]; dup {
					gotT[0] = 1
				}
				gotT[t.Type] = t.ID
			}
			if !reflect.DeepEqual(gotT, wantT) {
				k.Violate("mapping", fmt.Sprintf("child-proposal-does-not-announce-the-SA's-algorithms/integ=%v/dh=%v", i > 0, d > 0), fmt.Sprintf("transform type->id announced %v, SA has %v", gotT, wantT), M{"proposal": ap})
				return
			}
			k.Count("child_proposal_content_checked", 1)
			m := &abs.Msg{Major: 2, Exch: 36, Payloads: []abs.Payload{{Kind: abs.PSA, SA: &abs.SA{Proposals: []abs.Proposal{ap}}}}}
			wire, err, _ := libEncode(m)
			if err != nil {
				k.Violate("error", "proposal-encode-error", err.Error(), nil)
				return
			}
			back, err, _ := libDecodeKeep(wire)
			if err != nil {
				k.Violate("error", "proposal-decode-error", err.Error(), nil)
				return
			}
			rp := back.Payloads[0].(*message.SecurityAssociation).Proposals[0]
			ck, err := security.NewChildSAKeyByProposal(rp)
			if i == 0 {
				// no integrity transform: the property prescribes nothing
				k.Count("child_without_integrity(outcome not judged)", 1)
				return
			}
			if err != nil || ck == nil {
				k.Violate("mapping", "supported-child-proposal-refused", fmt.Sprint(err), M{"proposal": ap})
				return
			}
			okDh := (d == 0 && ck.DhInfo == nil) || (d > 0 && ck.DhInfo != nil && ck.DhInfo.TransformID() == []uint16{2, 14}[d-1])
			if ck.EncrKInfo.GetKeyLength() != []int{16, 24, 32}[e] || ck.IntegKInfo == nil || ck.IntegKInfo.TransformID() != []uint16{1, 2, 12}[i-1] ||
				ck.IntegKInfo.GetKeyLength() != childIntegLen[i] || !okDh || ck.EsnInfo.GetNeedESN() != (es == 1) {
				k.Violate("mapping", "child-proposal-roundtrip-changes-algorithms", "", M{"proposal": ap})
				return
			}
			k.Count("child_proposals_ok", 1)
			k.Distinct(fmt.Sprintf("childprop|%d%d%d%d", e, i, d, es))
			scribbleProposal(prop)
			if p2, err := src.ToProposal(); err != nil {
				k.Violate("error", "child-ToProposal-error-after-caller-edit", err.Error(), nil)
				return
			} else if a2 := bridge.ObserveProposal(p2); !reflect.DeepEqual(a2.Transforms, ap.Transforms) {
				k.Violate("history", "child-proposal-depends-on-edits-to-an-earlier-returned-proposal", "", M{"first": ap, "second": a2})
				return
			}
			k.Count("returned_proposal_edited_by_caller", 1)
			for _, tt := range []uint8{1, 3, 4, 5} {
				bp := bridge.ObserveProposal(rp)
				hit := false
				for ti := range bp.Transforms {
					if bp.Transforms[ti].Type == tt {
						bp.Transforms[ti].ID += 777
						hit = true
					}
				}
				if !hit {
					continue
				}
				k.Eval(1)
				bk, berr := security.NewChildSAKeyByProposal(bridge.BuildProposal(bp))
				if berr == nil || bk != nil {
					k.Violate("mapping", fmt.Sprintf("unsupported-child-proposal-accepted/type%d", tt), fmt.Sprint(berr), M{"proposal": bp})
					return
				}
				k.Count("unsupported_child_proposal_refused", 1)
			}
		})
		if pn != nil {
			k.Violate("panic", "child-proposal: "+pn.Sig(), "panic", panicData(pn, nil))
		}
	})
	c.Require("child_proposal_content_checked", "returned_transform_edited_by_caller", "returned_proposal_edited_by_caller", "advertised_ok", "ike_proposals_ok", "child_proposals_ok", "unsupported_ike_proposal_refused", "unsupported_child_proposal_refused",
		"supported_encr.DecodeTransform", "supported_encr.DecodeTransformChildSA", "supported_integ.DecodeTransform", "supported_integ.DecodeTransformChildSA",
		"supported_prf.DecodeTransform", "supported_dh.DecodeTransform", "supported_esn.DecodeTransform")
}
