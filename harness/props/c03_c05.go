package props

import (
	"bytes"
	"fmt"

	"verifharness/abs"
	"verifharness/core"
	"verifharness/gen"
	"verifharness/ref"
)

func init() {
	core.Register("C03", c03)
	core.Register("C05", c05)
}

// regression corpus: reduced witnesses of defects that were repaired in /repo
// (see /verif/known_findings.json); replayed first by every codec property.
func corpusMsgs() []*abs.Msg {
	hdr := func(ps ...abs.Payload) *abs.Msg {
		return &abs.Msg{ISPI: 0x1122334455667788, RSPI: 0x99aabbccddeeff00, Major: 2, Exch: 34, Flags: 8, MsgID: 1, Payloads: ps}
	}
	b := func(n int, v byte) abs.HB { return abs.HB(bytes.Repeat([]byte{v}, n)) }
	sa := func(spi abs.HB, t ...abs.Transform) abs.Payload {
		return abs.Payload{Kind: abs.PSA, SA: &abs.SA{Proposals: []abs.Proposal{{Num: 1, Proto: 1, SPI: spi, Transforms: t}}}}
	}
	aka := func(at ...abs.AKAAttr) abs.Payload {
		return abs.Payload{Kind: abs.PEAP, EAP: &abs.EAP{Code: 1, ID: 3, Method: &abs.Method{Type: abs.MAkaPrime,
			AKA: &abs.AKA{Subtype: 1, Attrs: at}}}}
	}
	return []*abs.Msg{
		hdr(), // header only
		hdr(sa(b(248, 0x5a), abs.Transform{Type: 1, ID: 12, HasAttr: true, TV: true, AttrType: 14, AttrVal: 128})),      // D3
		hdr(sa(b(255, 0x5b), abs.Transform{Type: 2, ID: 5})),                                                            // D3
		hdr(sa(nil, abs.Transform{Type: 1, ID: 12, HasAttr: true, TV: true, AttrType: 300, AttrVal: 7})),                // D4
		hdr(sa(nil, abs.Transform{Type: 1, ID: 12, HasAttr: true, TV: true, AttrType: 142, AttrVal: 256})),              // D4
		hdr(sa(nil, abs.Transform{Type: 3, ID: 2, HasAttr: true, AttrType: 9, AttrBytes: abs.HB{1, 2, 3}})),             // D5
		hdr(abs.Payload{Kind: abs.PNotify, Notify: &abs.Notify{Proto: 3, Type: 16393, SPI: b(252, 1), Data: b(3, 2)}}),  // D6
		hdr(abs.Payload{Kind: abs.PNotify, Notify: &abs.Notify{Proto: 3, Type: 1, SPI: b(255, 1)}}),                     // D6
		hdr(aka(abs.AKAAttr{Type: abs.ATCheckcode, Value: b(20, 0xcc)})),                                                // D10
		hdr(aka(abs.AKAAttr{Type: abs.ATCheckcode}, abs.AKAAttr{Type: abs.ATKdf, Value: abs.HB{0, 1}})),                 // D10
		hdr(aka(abs.AKAAttr{Type: abs.ATRes, Value: abs.HB{1, 2, 3, 4, 5}})),                                            // D11
		hdr(aka(abs.AKAAttr{Type: abs.ATKdfInput, Value: b(252, 0x61)})),                                                // D12
		hdr(aka(abs.AKAAttr{Type: abs.ATKdfInput, Value: b(300, 0x62)}, abs.AKAAttr{Type: abs.ATMac, Value: b(16, 9)})), // D12
	}
}

func c03One(k *core.Case, m *abs.Msg) {
	k.Eval(1)
	enc, err, p := libEncode(m)
	if p != nil {
		k.Violate("panic", "encode: "+p.Sig(), "Encode panicked on a domain message", panicData(p, M{"msg": msgJSON(m)}))
		return
	}
	if err != nil {
		k.Violate("encode-error", "encode-error: "+classifyErr(err), fmt.Sprintf("Encode failed on a domain message: %v", errStr(err)), M{"msg": msgJSON(m)})
		return
	}
	d, err, p := libDecode(enc)
	if p != nil {
		k.Violate("panic", "decode: "+p.Sig(), "Decode panicked on the library's own encoding", panicData(p, M{"msg": msgJSON(m), "wire": core.HexClip(enc, 4096)}))
		return
	}
	if err != nil {
		k.Violate("decode-error", "decode-error: "+classifyErr(err), fmt.Sprintf("Decode rejected the library's own encoding: %v", errStr(err)), M{"msg": msgJSON(m), "wire": core.HexClip(enc, 4096)})
		return
	}
	if !abs.Equal(m, d) {
		k.Violate("mismatch", "roundtrip-mismatch: "+diffClass(m, d), "decode(encode(m)) != m: "+abs.Diff(m, d), M{"msg": msgJSON(m), "wire": core.HexClip(enc, 4096)})
		return
	}
	k.Distinct(m.Shape())
	countFeatures(k.Ctx, m)
	if k.WantSample() {
		k.Sample(M{"msg": msgJSON(m), "wire_len": len(enc)})
	}
}

// refusedEncodes builds out-of-domain messages whose encoding must fail part-way through (the first nested element is
// valid, a later one is not) and encodes them: the error paths of the encoder are exercised so that state they may
// leave behind (pooled or cached buffers) shows up in the domain round trips that follow in the same process.
func refusedEncodes(k *core.Case) {
	r := k.R
	okT := abs.Transform{Type: 1, ID: 12, HasAttr: true, TV: true, AttrType: 14, AttrVal: 128}
	okP := abs.Proposal{Num: 1, Proto: 1, SPI: gen.DataN(r, 4), Transforms: []abs.Transform{okT, {Type: 3, ID: 2}}}
	okSel := gen.Selector(r)
	bad := []abs.Payload{
		{Kind: abs.PSA, SA: &abs.SA{Proposals: []abs.Proposal{okP, {Num: 2, Proto: 3}}}},                                                                // second proposal without transforms
		{Kind: abs.PSA, SA: &abs.SA{Proposals: []abs.Proposal{okP, okP, {Num: 3, Proto: 1, SPI: gen.DataN(r, 256), Transforms: []abs.Transform{okT}}}}}, // SPI too long
		{Kind: abs.PSA, SA: &abs.SA{Proposals: []abs.Proposal{{Num: 1, Proto: 1, Transforms: []abs.Transform{okT, {Type: 2, ID: 5, HasAttr: true}}}}}},  // TLV without value
		{Kind: abs.PTSi, TS: &abs.TS{Sel: []abs.Selector{okSel, {Type: 7, StartAddr: gen.DataN(r, 5), EndAddr: gen.DataN(r, 4)}}}},                      // bad address length
		{Kind: abs.PTSr, TS: &abs.TS{Sel: []abs.Selector{okSel, okSel, {Type: 9}}}},                                                                     // unsupported selector type
		{Kind: abs.PCP, CP: &abs.CP{Type: 1, Attrs: []abs.CPAttr{{Type: 1, Value: gen.DataN(r, 4)}, {Type: 2, Value: gen.DataN(r, 70000)}}}},            // attribute too long
		{Kind: abs.PNotify, Notify: &abs.Notify{Type: 1, SPI: gen.DataN(r, 256)}},                                                                       // SPI too long
		{Kind: abs.PDelete, Delete: &abs.Delete{Proto: 3, SPISize: 4, Num: 3, SPIs: []uint32{1, 2}}},                                                    // count mismatch
		{Kind: abs.PEAP, EAP: &abs.EAP{Code: 1, ID: 1, Method: &abs.Method{Type: abs.MIdentity}}},                                                       // empty identity
		{Kind: abs.PSK, SK: &abs.SK{}},                // empty SK
		{Kind: abs.PNonce, Data: gen.DataN(r, 65533)}, // payload beyond the 16-bit length
	}
	n := 1 + r.Intn(3)
	for i := 0; i < n; i++ {
		m := gen.Header(r)
		// valid payloads first, the refused one last: the container encoder is part-way through as well
		for j := 0; j < r.Intn(3); j++ {
			m.Payloads = append(m.Payloads, gen.Payload(r, gen.AllKinds()[r.Intn(len(gen.AllKinds()))]))
		}
		m.Payloads = append(m.Payloads, bad[r.Intn(len(bad))])
		_, err, p := libEncode(m)
		if p != nil {
			k.Count("refused_encode_panicked(not judged here)", 1)
		} else if err != nil {
			k.Count("refused_encodes", 1)
		}
	}
}

func c03(c *core.Ctx) {
	cm := corpusMsgs()
	c.Family("corpus", len(cm), func(k *core.Case) { c03One(k, cm[k.Index]) })
	c.Family("single", c.N(15000, 2000000), func(k *core.Case) {
		m := gen.Header(k.R)
		kinds := gen.AllKinds()
		m.Payloads = []abs.Payload{gen.Payload(k.R, kinds[k.Index%len(kinds)])}
		c03One(k, m)
	})
	c.Family("mixed", c.N(80000, 12000000), func(k *core.Case) {
		c03One(k, gen.Msg(k.R, gen.Opt{AllowBig: true, AllowEmpty: true}))
	})
	c.Family("after-refused-encode", c.N(8000, 1000000), func(k *core.Case) {
		refusedEncodes(k)
		m := gen.Header(k.R)
		kinds := gen.AllKinds()
		m.Payloads = []abs.Payload{gen.Payload(k.R, kinds[k.Index%len(kinds)])}
		if k.R.Bool() {
			m = gen.Msg(k.R, gen.Opt{AllowEmpty: true})
		}
		c03One(k, m)
	})
	c.Require("refused_encodes", "msg_object_completed-after-plain-encode", "msg_object_header-parsed-from-a-protected-datagram", "msg_object_object-decoded-from-another-datagram", "msg_object_NewMessage")
	c.Family("big", c.N(1200, 120000), func(k *core.Case) {
		m := gen.Header(k.R)
		m.Payloads = []abs.Payload{gen.Big(k.R)}
		c03One(k, m)
	})
}

// diffClass names the kind of the first differing payload (stable class, no values).
func diffClass(a, b *abs.Msg) string {
	ca, cb := a.Canon(), b.Canon()
	if len(ca.Payloads) != len(cb.Payloads) {
		return "payload-count"
	}
	for i := range ca.Payloads {
		if ca.Payloads[i].JSON() != cb.Payloads[i].JSON() {
			return "payload " + abs.KindName[ca.Payloads[i].Kind] + subClass(ca.Payloads[i], cb.Payloads[i])
		}
	}
	return "header"
}

func subClass(a, b abs.Payload) string {
	if a.EAP != nil && b.EAP != nil && a.EAP.Method != nil {
		if a.EAP.Method.AKA != nil {
			return "/aka"
		}
		return fmt.Sprintf("/m%d", a.EAP.Method.Type)
	}
	return ""
}

func classifyErr(err error) string {
	s := err.Error()
	// strip numbers so that the class is stable
	out := make([]byte, 0, len(s))
	for i := 0; i < len(s) && len(out) < 120; i++ {
		ch := s[i]
		if ch >= '0' && ch <= '9' {
			if len(out) > 0 && out[len(out)-1] == '#' {
				continue
			}
			out = append(out, '#')
			continue
		}
		if ch == '\n' {
			break
		}
		out = append(out, ch)
	}
	return string(out)
}

func countFeatures(c *core.Ctx, m *abs.Msg) {
	for _, p := range m.Payloads {
		c.Count("payload_"+abs.KindName[p.Kind], 1)
		switch {
		case p.SA != nil:
			for _, pr := range p.SA.Proposals {
				if len(pr.SPI) >= 248 {
					c.Count("sa_spi_ge248", 1)
				}
				per := map[uint8]int{}
				for _, t := range pr.Transforms {
					per[t.Type]++
					if t.HasAttr && !t.TV {
						c.Count("sa_tlv_attr", 1)
					}
					if t.HasAttr && t.AttrType >= 128 {
						c.Count("sa_attrtype_ge128", 1)
					}
				}
				for _, n := range per {
					if n > 1 {
						c.Count("sa_multi_transform_same_type", 1)
						break
					}
				}
			}
			if len(p.SA.Proposals) > 1 {
				c.Count("sa_multi_proposal", 1)
			}
		case p.Notify != nil:
			if len(p.Notify.SPI) >= 252 {
				c.Count("notify_spi_ge252", 1)
			}
		case p.TS != nil:
			v4, v6 := false, false
			for _, s := range p.TS.Sel {
				if s.Type == 7 {
					v4 = true
				} else {
					v6 = true
				}
			}
			if v4 && v6 {
				c.Count("ts_mixed_v4_v6", 1)
			}
			if len(p.TS.Sel) == 255 {
				c.Count("ts_255_selectors", 1)
			}
		case p.EAP != nil && p.EAP.Method != nil && p.EAP.Method.AKA != nil:
			for _, a := range p.EAP.Method.AKA.Attrs {
				switch {
				case a.Type == abs.ATCheckcode:
					c.Count(fmt.Sprintf("aka_checkcode_%d", len(a.Value)), 1)
				case a.Type == abs.ATKdfInput && len(a.Value) >= 252:
					c.Count("aka_kdfinput_ge252", 1)
				case (a.Type == abs.ATRes || a.Type == abs.ATKdfInput) && len(a.Value)%4 != 0:
					c.Count("aka_unaligned_value", 1)
				}
			}
		}
	}
	if len(m.Payloads) == 0 {
		c.Count("empty_payload_list", 1)
	}
}

// ---------------------------------------------------------------------------
// C05

func noiseOpts(r *core.Rng) (*ref.Opts, string) {
	o := &ref.Opts{}
	lib := ""
	if r.Chance(3, 4) {
		o.Noise = r.Byte
		lib += "R"
	}
	if r.Chance(1, 2) {
		o.CritKnown = func() bool { return r.Chance(1, 2) }
		lib += "C"
	}
	return o, lib
}

func shuffleTransforms(r *core.Rng, m *abs.Msg) bool {
	did := false
	for i := range m.Payloads {
		if m.Payloads[i].SA == nil {
			continue
		}
		for j := range m.Payloads[i].SA.Proposals {
			t := m.Payloads[i].SA.Proposals[j].Transforms
			for x := len(t) - 1; x > 0; x-- {
				y := r.Intn(x + 1)
				t[x], t[y] = t[y], t[x]
				did = true
			}
		}
	}
	return did
}

func c05Forward(k *core.Case, m *abs.Msg) {
	k.Eval(1)
	enc, err, p := libEncode(m)
	if p != nil {
		k.Violate("panic", "encode: "+p.Sig(), "Encode panicked on a domain message", panicData(p, M{"msg": msgJSON(m)}))
		return
	}
	if err != nil {
		k.Violate("encode-error", "encode-error: "+classifyErr(err), "Encode failed on a domain message: "+errStr(err), M{"msg": msgJSON(m)})
		return
	}
	pm, perr := ref.ParseMsg(enc)
	if perr != nil {
		k.Violate("malformed", "strict-parse: "+classifyErr(perr), "independent strict parser rejects the library's encoding: "+perr.Error(),
			M{"msg": msgJSON(m), "wire": core.HexClip(enc, 4096)})
		return
	}
	if !abs.Equal(m, pm) {
		k.Violate("mismatch", "forward-mismatch: "+diffClass(m, pm), "independent parser recovers different fields: "+abs.Diff(m, pm),
			M{"msg": msgJSON(m), "wire": core.HexClip(enc, 4096)})
		return
	}
	canon, cerr := ref.EncodeMsg(m, nil)
	if cerr == nil && bytes.Equal(canon, enc) {
		k.Count("byte_identical_to_reference_canonical", 1)
	} else {
		k.Count("differs_from_reference_canonical_bytes(not judged)", 1)
	}
	k.Distinct("fwd|" + m.Shape())
	if k.WantSample() {
		k.Sample(M{"dir": "library->reference", "msg": msgJSON(m), "wire_len": len(enc)})
	}
}

func c05Backward(k *core.Case, m *abs.Msg) {
	k.Eval(1)
	o, lib := noiseOpts(k.R)
	if k.R.Chance(1, 2) && shuffleTransforms(k.R, m) {
		lib += "T"
	}
	wire, err := ref.EncodeMsg(m, o)
	if err != nil {
		k.Count("reference_encoder_declined", 1)
		return
	}
	d, derr, p := libDecode(wire)
	if p != nil {
		k.Violate("panic", "decode: "+p.Sig(), "Decode panicked on a well-formed reference datagram", panicData(p, M{"msg": msgJSON(m), "wire": core.HexClip(wire, 4096), "liberties": lib}))
		return
	}
	if derr != nil {
		k.Violate("decode-error", "decode-error: "+classifyErr(derr), "Decode rejected a well-formed reference datagram: "+errStr(derr),
			M{"msg": msgJSON(m), "wire": core.HexClip(wire, 4096), "liberties": lib})
		return
	}
	if !abs.Equal(m, d) {
		k.Violate("mismatch", "backward-mismatch: "+diffClass(m, d), "decoded fields differ from what the reference datagram was built from: "+abs.Diff(m, d),
			M{"msg": msgJSON(m), "wire": core.HexClip(wire, 4096), "liberties": lib})
		return
	}
	k.Count("liberties_"+lib, 1)
	k.Distinct("bwd|" + lib + "|" + m.Shape())
	if k.WantSample() && k.Index%2 == 1 {
		k.Sample(M{"dir": "reference->library", "liberties": lib, "msg": msgJSON(m), "wire": core.HexClip(wire, 600)})
	}
}

func c05(c *core.Ctx) {
	cm := corpusMsgs()
	c.Family("corpus-fwd", len(cm), func(k *core.Case) { c05Forward(k, cm[k.Index]) })
	c.Family("corpus-bwd", len(cm), func(k *core.Case) { c05Backward(k, cm[k.Index]) })
	c.Family("fwd", c.N(50000, 6000000), func(k *core.Case) {
		c05Forward(k, gen.Msg(k.R, gen.Opt{AllowBig: true, AllowEmpty: true}))
	})
	c.Family("bwd", c.N(50000, 6000000), func(k *core.Case) {
		c05Backward(k, gen.Msg(k.R, gen.Opt{AllowBig: true, AllowEmpty: true}))
	})
	// around the 16-bit payload length limit: whatever Encode returns WITHOUT an error must be a well-formed datagram
	// from which the independent parser recovers the fields; beyond the limit an error is the only other outcome
	c.Family("fwd-at-limit", 8*24, func(k *core.Case) {
		total := 65524 + k.Index/8 // generic header + body: 65524..65547
		body := total - 4
		var p abs.Payload
		switch k.Index % 8 {
		case 0:
			p = abs.Payload{Kind: abs.PNonce, Data: gen.DataN(k.R, body)}
		case 1:
			p = abs.Payload{Kind: abs.PVendor, Data: gen.DataN(k.R, body)}
		case 2:
			p = abs.Payload{Kind: abs.PKE, KE: &abs.KE{Group: 14, Data: gen.DataN(k.R, body-4)}}
		case 3:
			p = abs.Payload{Kind: abs.PCERT, Cert: &abs.Cert{Enc: 4, Data: gen.DataN(k.R, body-1)}}
		case 4:
			p = abs.Payload{Kind: abs.PNotify, Notify: &abs.Notify{Type: 1, SPI: gen.DataN(k.R, 4), Data: gen.DataN(k.R, body-8)}}
		case 5:
			p = abs.Payload{Kind: abs.PAUTH, Auth: &abs.Auth{Method: 2, Data: gen.DataN(k.R, body-4)}}
		case 6:
			p = abs.Payload{Kind: abs.PIDi, ID: &abs.ID{Type: 11, Data: gen.DataN(k.R, body-4)}}
		default:
			p = abs.Payload{Kind: abs.PEAP, EAP: &abs.EAP{Code: 2, ID: 1, Method: &abs.Method{Type: abs.MIdentity, Data: gen.DataN(k.R, body-5)}}}
		}
		m := gen.Header(k.R)
		m.Payloads = []abs.Payload{gen.Notify(k.R), p}
		k.Eval(1)
		enc, err, pn := libEncode(m)
		w := M{"payload_kind": abs.KindName[p.Kind], "payload_total_octets": total}
		if pn != nil {
			k.Violate("panic", "encode-at-limit: "+pn.Sig(), "panic", panicData(pn, w))
			return
		}
		if err != nil {
			if total <= 65535 {
				k.Violate("encode-error", "encode-error-below-limit/"+abs.KindName[p.Kind], errStr(err), w)
				return
			}
			k.Count("at_limit_refused_with_error", 1)
			k.Distinct(fmt.Sprintf("limit|err|%d|%d", p.Kind, total))
			return
		}
		pm, perr := ref.ParseMsg(enc)
		if perr != nil || !abs.Equal(m, pm) {
			w["wire_len"] = len(enc)
			k.Violate("malformed", "malformed-datagram-returned-without-error/"+abs.KindName[p.Kind],
				fmt.Sprintf("Encode returned %d octets and no error for a payload of %d octets, but the independent parser says: %v", len(enc), total, perr), w)
			return
		}
		k.Count("at_limit_encoded_ok", 1)
		k.Distinct(fmt.Sprintf("limit|ok|%d|%d", p.Kind, total))
	})
	c.Require("at_limit_refused_with_error", "at_limit_encoded_ok", "msg_object_completed-after-plain-encode", "msg_object_header-parsed-from-a-protected-datagram", "msg_object_object-decoded-from-another-datagram", "msg_object_NewMessage")
	c.Family("fwd-after-refused-encode", c.N(6000, 600000), func(k *core.Case) {
		refusedEncodes(k)
		c05Forward(k, gen.Msg(k.R, gen.Opt{AllowEmpty: true, MaxPayloads: 4}))
	})
	c.Family("bwd-single", c.N(15000, 1000000), func(k *core.Case) {
		m := gen.Header(k.R)
		kinds := gen.AllKinds()
		m.Payloads = []abs.Payload{gen.Payload(k.R, kinds[k.Index%len(kinds)])}
		c05Backward(k, m)
	})
}
