package props

import (
	"bytes"
	"encoding/json"
	"fmt"
	"sort"
	"strings"
	"sync"
	"sync/atomic"

	ike "github.com/free5gc/ike"
	"github.com/free5gc/ike/eap"
	"github.com/free5gc/ike/message"
	"github.com/free5gc/ike/security"
	"github.com/free5gc/ike/security/encr"

	"verifharness/abs"
	"verifharness/bridge"
	"verifharness/core"
	"verifharness/gen"
	"verifharness/libsa"
	"verifharness/mon"
	"verifharness/ref"
)

func init() { core.Register("C04", c04) }

// ---------------------------------------------------------------------------
// progress hook: logical step bound

type stepAbort struct{ site string }

func (s stepAbort) String() string { return "verif-step-abort:" + s.site }

var (
	hookHits  int64
	hookLimit int64 = 1 << 62
	siteHits  [16]int64
)

var siteIndex = map[string]int{"message.container.decode": 0, "message.sa.proposal": 1, "message.sa.transform": 2,
	"message.delete.spi": 3, "message.cp.attribute": 4, "message.tsi.selector": 5, "message.tsr.selector": 6,
	"eap.akaprime.attribute": 7, "lib.prfplus.block": 8, "security.randomnumber.try": 9, "ike.integrity.afterreset": 10,
	"ike.integrity.afterwrite": 11, "ike.decrypt.verified": 12, "encr.aescbc.padded": 13, "encr.aescbc.beforecrypt": 14}

func stepHook(site string, n int) {
	if i, ok := siteIndex[site]; ok {
		atomic.AddInt64(&siteHits[i], 1)
	}
	if atomic.AddInt64(&hookHits, 1) > atomic.LoadInt64(&hookLimit) {
		panic(stepAbort{site})
	}
}

func installStepHook() { ike.VerifSetHook(stepHook) }

// ---------------------------------------------------------------------------
// entry points

type entry struct {
	name string
	f    func(b []byte) (string, error)
}

func js(v interface{}) string {
	b, _ := json.Marshal(v)
	return string(b)
}

func unmarshalEntry(name string, mk func() message.IKEPayload) entry {
	return entry{name, func(b []byte) (string, error) {
		p := mk()
		if err := p.Unmarshal(b); err != nil {
			return "", err
		}
		return bridge.ObservePayload(p).JSON(), nil
	}}
}

var payloadEntries = map[uint8]entry{
	abs.PSA:      unmarshalEntry("SA.Unmarshal", func() message.IKEPayload { return new(message.SecurityAssociation) }),
	abs.PKE:      unmarshalEntry("KE.Unmarshal", func() message.IKEPayload { return new(message.KeyExchange) }),
	abs.PIDi:     unmarshalEntry("IDi.Unmarshal", func() message.IKEPayload { return new(message.IdentificationInitiator) }),
	abs.PIDr:     unmarshalEntry("IDr.Unmarshal", func() message.IKEPayload { return new(message.IdentificationResponder) }),
	abs.PCERT:    unmarshalEntry("CERT.Unmarshal", func() message.IKEPayload { return new(message.Certificate) }),
	abs.PCERTREQ: unmarshalEntry("CERTREQ.Unmarshal", func() message.IKEPayload { return new(message.CertificateRequest) }),
	abs.PAUTH:    unmarshalEntry("AUTH.Unmarshal", func() message.IKEPayload { return new(message.Authentication) }),
	abs.PNonce:   unmarshalEntry("Nonce.Unmarshal", func() message.IKEPayload { return new(message.Nonce) }),
	abs.PNotify:  unmarshalEntry("Notify.Unmarshal", func() message.IKEPayload { return new(message.Notification) }),
	abs.PDelete:  unmarshalEntry("Delete.Unmarshal", func() message.IKEPayload { return new(message.Delete) }),
	abs.PVendor:  unmarshalEntry("Vendor.Unmarshal", func() message.IKEPayload { return new(message.VendorID) }),
	abs.PTSi:     unmarshalEntry("TSi.Unmarshal", func() message.IKEPayload { return new(message.TrafficSelectorInitiator) }),
	abs.PTSr:     unmarshalEntry("TSr.Unmarshal", func() message.IKEPayload { return new(message.TrafficSelectorResponder) }),
	abs.PSK:      unmarshalEntry("SK.Unmarshal", func() message.IKEPayload { return new(message.Encrypted) }),
	abs.PCP:      unmarshalEntry("CP.Unmarshal", func() message.IKEPayload { return new(message.Configuration) }),
	abs.PEAP:     unmarshalEntry("EAPPayload.Unmarshal", func() message.IKEPayload { return message.NewPayloadEap() }),
}

var eMsgDecode = entry{"IKEMessage.Decode", func(b []byte) (string, error) {
	m := new(message.IKEMessage)
	if err := m.Decode(b); err != nil {
		return "", err
	}
	return bridge.ObserveMsg(m).JSON(), nil
}}

var eParseHeader = entry{"ParseHeader", func(b []byte) (string, error) {
	h, err := message.ParseHeader(b)
	if err != nil {
		return "", err
	}
	return fmt.Sprintf("%x %x %d %d.%d %d %d %d %x", h.InitiatorSPI, h.ResponderSPI, h.NextPayload, h.MajorVersion, h.MinorVersion,
		h.ExchangeType, h.Flags, h.MessageID, h.PayloadBytes), nil
}}

func eDecodePayload(first uint8) entry {
	return entry{fmt.Sprintf("IKEMessage.DecodePayload[first=%s]", firstClass(first)), func(b []byte) (string, error) {
		m := &message.IKEMessage{IKEHeader: &message.IKEHeader{NextPayload: first}}
		if err := m.DecodePayload(b); err != nil {
			return "", err
		}
		return js(bridge.ObservePayloads(m.Payloads)), nil
	}}
}

func eContainer(first uint8) entry {
	return entry{"IKEPayloadContainer.Decode", func(b []byte) (string, error) {
		var c message.IKEPayloadContainer
		if err := c.Decode(first, b); err != nil {
			return "", err
		}
		return js(bridge.ObservePayloads(c)), nil
	}}
}

var eEAP = entry{"EAP.Unmarshal", func(b []byte) (string, error) {
	e := new(eap.EAP)
	if err := e.Unmarshal(b); err != nil {
		return "", err
	}
	return bridge.ObserveEAP(e).JSON(), nil
}}

func methodEntry(name string, mk func() eap.EapTypeData) entry {
	return entry{name, func(b []byte) (string, error) {
		m := mk()
		if err := m.Unmarshal(b); err != nil {
			return "", err
		}
		return bridge.ObserveEAP(&eap.EAP{Code: 1, EapTypeData: m}).JSON(), nil
	}}
}

var methodEntries = []entry{
	methodEntry("EapIdentity.Unmarshal", func() eap.EapTypeData { return new(eap.EapIdentity) }),
	methodEntry("EapNotification.Unmarshal", func() eap.EapTypeData { return new(eap.EapNotification) }),
	methodEntry("EapNak.Unmarshal", func() eap.EapTypeData { return new(eap.EapNak) }),
	methodEntry("EapAkaPrime.Unmarshal", func() eap.EapTypeData { return new(eap.EapAkaPrime) }),
	methodEntry("EapExpanded.Unmarshal", func() eap.EapTypeData { return new(eap.EapExpanded) }),
}

// DecodeDecrypt: key may be nil; header nil or parsed from the same bytes.
func eDecodeDecrypt(name string, key func() *security.IKESAKey, pre bool, init bool) entry {
	return entry{name, func(b []byte) (string, error) {
		var hdr *message.IKEHeader
		if pre {
			var err error
			hdr, err = message.ParseHeader(b)
			if err != nil {
				return "", err
			}
		}
		m, err := ike.DecodeDecrypt(b, hdr, key(), role(init))
		if err != nil {
			return "", err
		}
		if m == nil {
			panic("DecodeDecrypt returned (nil message, nil error): neither a value nor an error")
		}
		return bridge.ObserveMsg(m).JSON(), nil
	}}
}

func eCipher(keyLen int, key []byte) entry {
	return entry{fmt.Sprintf("IKECrypto.Decrypt[AES-%d]", keyLen*8), func(b []byte) (string, error) {
		c, err := encr.StrToType(libsa.EncrNames[keyLen]).NewCrypto(key)
		if err != nil {
			return "", fmt.Errorf("NewCrypto: %v", err)
		}
		pt, err := c.Decrypt(b)
		if err != nil {
			return "", err
		}
		return core.Hex(pt), nil
	}}
}

// ---------------------------------------------------------------------------
// the monitor: one input, one entry point, all placements

func c04Probe(k *core.Case, e entry, in []byte, tail []byte, cell string) {
	var first string
	var firstErr bool
	for pl := 0; pl <= mon.NPlacements; pl++ {
		kind := pl
		if pl == mon.NPlacements {
			kind = mon.PlaceExact // repeated call
		}
		buf := mon.Place(in, kind, tail)
		full := buf[:cap(buf)]
		snap := append([]byte{}, full...)
		var out string
		var err error
		atomic.StoreInt64(&hookHits, 0)
		atomic.StoreInt64(&hookLimit, int64(2*len(in)+64))
		k.Eval(1)
		p := core.Try(func() { out, err = e.f(buf) })
		steps := atomic.LoadInt64(&hookHits)
		atomic.StoreInt64(&hookLimit, 1<<62)
		w := func() M {
			return M{"entry": e.name, "input": core.HexClip(in, 8192), "input_len": len(in), "placement": kind, "cell": cell}
		}
		if p != nil {
			if strings.HasPrefix(p.Value, "verif-step-abort:") {
				k.Violate("unbounded-work", "steps>2n+64/"+e.name, fmt.Sprintf("%d loop steps on %d input octets", steps, len(in)), w())
			} else {
				k.Violate("panic", e.name+": "+p.Sig(), "decoder panicked: "+p.Value, panicData(p, w()))
			}
			return
		}
		if !bytes.Equal(snap, full) {
			k.Violate("input-modified", "input-modified/"+e.name, "the decoder wrote to the input buffer or its surroundings", w())
			return
		}
		isErr := err != nil
		if pl == 0 {
			first, firstErr = out, isErr
			if !isErr {
				k.Count("accepted_"+e.name, 1)
			} else {
				k.Count("rejected_"+e.name, 1)
			}
			continue
		}
		if isErr != firstErr || out != first {
			what := "memory behind/around the slice influenced the result"
			if pl == mon.NPlacements {
				what = "a repeated call gave a different result"
			}
			d := w()
			d["outcome_exact"] = clipS(first, 1500)
			d["outcome_this"] = clipS(out, 1500)
			d["err_exact"], d["err_this"] = firstErr, isErr
			k.Violate("placement", "placement-dependent/"+e.name, what, d)
			return
		}
	}
	oc := "err"
	if !firstErr {
		oc = "ok"
	}
	k.Distinct(e.name + "|" + oc + "|" + cell)
	if k.WantSample() && len(in) > 0 && len(in) < 120 && (k.Index%7 == 3 || !firstErr) {
		k.Sample(M{"entry": e.name, "input": core.Hex(in), "outcome": oc, "cell": cell, "placements": mon.NPlacements + 1})
	}
}

func clipS(s string, n int) string {
	if len(s) > n {
		return s[:n] + "..."
	}
	return s
}

// probeBody sends a payload body to its Unmarshal, and wrapped into the container / message / protected paths.
func c04Body(k *core.Case, env *c04env, kind uint8, body []byte, cell string, deep bool) {
	c04Probe(k, payloadEntries[kind], body, nil, cell)
	if !deep || len(body)+4 > 0xffff {
		return
	}
	chain := append([]byte{0, 0, byte((len(body) + 4) >> 8), byte(len(body) + 4)}, body...)
	c04Probe(k, eContainer(kind), chain, nil, cell)
	hdr := &abs.Msg{ISPI: 1, RSPI: 2, Major: 2, Exch: 35, MsgID: 1}
	whole := append(ref.EncodeHeader(hdr, kind, 28+len(chain)), chain...)
	c04Probe(k, eMsgDecode, whole, nil, cell)
	env.protectedProbe(k, hdr, kind, chain, cell)
}

type c04env struct {
	raws [3]libsa.Raw // one per ICV size class (MD5-96, SHA1-96, SHA2-256-128)
	ckey [3][]byte
}

func newC04env(r *core.Rng) *c04env {
	e := &c04env{}
	for i := 0; i < 3; i++ {
		e.raws[i] = libsa.RandomRaw(r, ref.Suite{EncKeyLen: []int{16, 24, 32}[i], Integ: i})
		e.ckey[i] = r.Bytes([]int{16, 24, 32}[i])
	}
	return e
}

func (e *c04env) keyFn(i int) func() *security.IKESAKey {
	return func() *security.IKESAKey {
		k, err := libsa.NewKey(e.raws[i])
		if err != nil {
			panic(err)
		}
		return k
	}
}

// protectedProbe encrypts an arbitrary inner chain with the reference so that
// the decoders are reached through DecodeDecrypt after a valid checksum.
func (e *c04env) protectedProbe(k *core.Case, hdr *abs.Msg, first uint8, inner []byte, cell string) {
	i := k.R.Intn(3)
	init := k.R.Bool()
	s := e.raws[i].Suite
	padn := (16 - (len(inner)+1)%16) % 16
	if 4+16+len(inner)+padn+1+s.ICVLen() > 0xffff {
		return
	}
	wire, err := ref.ProtectRaw(hdr, first, inner, s, e.raws[i].Dir(init), k.R.Bytes(16), k.R.Bytes(padn), nil)
	if err != nil {
		return
	}
	c04Probe(k, eDecodeDecrypt("DecodeDecrypt[keyed,valid-checksum]", e.keyFn(i), k.R.Bool(), !init), wire, nil, cell+"/protected")
}

// ---------------------------------------------------------------------------
// enumerated field windows

func u16(v int) []byte { return []byte{byte(v >> 8), byte(v)} }

var len16 = []int{0, 1, 2, 3, 4, 5, 6, 7, 8, 9, 10, 11, 12, 13, 14, 15, 16, 17, 20, 24, 40, 255, 256, 257, 4095, 32767, 32768,
	65520, 65524, 65527, 65528, 65529, 65530, 65531, 65532, 65533, 65534, 65535}

func c04Windows(c *core.Ctx) {
	env := func(k *core.Case) *c04env { return newC04env(core.NewRng(uint64(k.Seed), 77)) }
	// SA: SPI size 0..255 x proposal-length window x buffer window
	c.Family("win-sa-spi", 256, func(k *core.Case) {
		e := env(k)
		spi := k.Index
		for _, pl := range append([]int{8 + spi - 2, 8 + spi - 1, 8 + spi, 8 + spi + 1, 8 + spi + 7, 8 + spi + 8, 8 + spi + 9}, 0, 4, 7, 8, 9, 12, 16, 65535) {
			if pl < 0 {
				continue
			}
			for _, rem := range []int{0, 1, 7, 8, spi - 1, spi, spi + 1, spi + 7, spi + 8, spi + 9, spi + 16, spi + 17} {
				if rem < 0 {
					continue
				}
				body := append([]byte{0, 0}, u16(pl)...)
				body = append(body, 1, 1, byte(spi), 1)
				t := k.R.Bytes(rem)
				// make the octets after the SPI look like a transform header when there is room
				if rem >= spi+8 {
					copy(t[spi:], []byte{0, 0, 0, 8, 1, 0, 0, 12})
				}
				body = append(body, t...)
				c04Body(k, e, abs.PSA, body, fmt.Sprintf("sa-spi/pl-spi=%d/rem-spi=%d", clampD(pl-8-spi), clampD(rem-spi)), spi%16 == 0)
			}
		}
	})
	// SA transform: transform length x attribute length boundaries x remaining
	c.Family("win-sa-transform", len(len16), func(k *core.Case) {
		e := env(k)
		tl := len16[k.Index]
		for _, al := range len16 {
			for _, rem := range []int{0, 1, 2, 3, 4, 5, 8, 12, 16, 24} {
				for _, af := range []byte{0x00, 0x80} {
					tr := append([]byte{0, 0}, u16(tl)...)
					tr = append(tr, 1, 0, 0, 12, af, 14)
					tr = append(tr, u16(al)...)
					tr = append(tr, k.R.Bytes(rem)...)
					for _, cut := range []int{len(tr), 8, 9, 10, 11} {
						if cut > len(tr) {
							continue
						}
						t := tr[:cut]
						pl := 8 + len(t)
						body := append([]byte{0, 0}, u16(pl)...)
						body = append(body, 1, 1, 0, 1)
						body = append(body, t...)
						c04Body(k, e, abs.PSA, body, fmt.Sprintf("sa-tr/tl=%s/al=%s/rem=%d/af=%d", lenCell(tl, len(t)), lenCell(al, rem), minI(rem, 5), af>>7), k.Index%8 == 0 && rem == 4)
					}
				}
			}
		}
	})
	// Notify: SPI size 0..255 x remaining
	c.Family("win-notify", 256, func(k *core.Case) {
		e := env(k)
		spi := k.Index
		for _, rem := range []int{0, 1, 2, 3, spi - 2, spi - 1, spi, spi + 1, spi + 2, spi + 9, 300} {
			if rem < 0 {
				continue
			}
			body := append([]byte{3, byte(spi), 0x40, 0x09}, k.R.Bytes(rem)...)
			c04Body(k, e, abs.PNotify, body, fmt.Sprintf("notify/rem-spi=%d", clampD(rem-spi)), spi%8 == 0)
			for cut := 0; cut < 4; cut++ {
				c04Body(k, e, abs.PNotify, body[:cut], "notify/short", false)
			}
		}
	})
	// Delete: SPI size 0..255 x count boundaries x remaining 0..24
	c.Family("win-delete", 256, func(k *core.Case) {
		e := env(k)
		ss := k.Index
		for _, cnt := range []int{0, 1, 2, 3, 4, 5, 6, 255, 256, 257, 16383, 16384, 65535} {
			for rem := 0; rem <= 24; rem++ {
				body := append([]byte{3, byte(ss)}, u16(cnt)...)
				body = append(body, k.R.Bytes(rem)...)
				c04Body(k, e, abs.PDelete, body, fmt.Sprintf("delete/ss=%s/cnt=%s/rem%%4=%d", smallCell(ss), smallCell(cnt), rem%4), ss <= 8 && rem%5 == 0)
			}
		}
		for cut := 0; cut < 4; cut++ {
			c04Body(k, e, abs.PDelete, []byte{3, byte(ss), 0, 1}[:cut], "delete/short", false)
		}
	})
	// CP: attribute length boundaries x remaining 0..12
	c.Family("win-cp", len(len16), func(k *core.Case) {
		e := env(k)
		al := len16[k.Index]
		for rem := 0; rem <= 12; rem++ {
			for _, tb := range []byte{0x00, 0x80} {
				body := []byte{1, 0, 0, 0, tb, 1}
				body = append(body, u16(al)...)
				body = append(body, k.R.Bytes(rem)...)
				c04Body(k, e, abs.PCP, body, fmt.Sprintf("cp/al=%s/rem=%d", lenCell(al, rem), rem), true)
				for cut := 0; cut < 8; cut++ {
					c04Body(k, e, abs.PCP, body[:cut], "cp/short", false)
				}
			}
		}
	})
	// TS: count 0..255, selector type / length fields, remaining
	c.Family("win-ts", 256, func(k *core.Case) {
		e := env(k)
		cnt := k.Index
		for _, tsT := range []byte{7, 8, 0, 9} {
			for _, sl := range []int{0, 8, 15, 16, 17, 39, 40, 41, 65535} {
				for _, rem := range []int{0, 3, 4, 7, 8, 15, 16, 17, 39, 40, 41, 56, 80} {
					body := []byte{byte(cnt), 0, 0, 0}
					sel := append([]byte{tsT, 6}, u16(sl)...)
					sel = append(sel, k.R.Bytes(rem)...)
					if len(sel) > rem+4 {
						sel = sel[:rem+4]
					}
					body = append(body, sel...)
					if len(body) > 4+rem {
						body = body[:4+rem]
					}
					kind := uint8(abs.PTSi)
					if rem%2 == 1 {
						kind = abs.PTSr
					}
					c04Body(k, e, kind, body, fmt.Sprintf("ts/cnt=%s/t=%d/sl=%s/rem=%d", smallCell(cnt), tsT, lenCell(sl, rem), rem), cnt <= 3 && tsT == 7)
				}
			}
		}
		// count larger / smaller than the selectors present
		var body []byte
		body = append(body, byte(cnt), 0, 0, 0)
		for i := 0; i < 3; i++ {
			body = append(body, 7, 0, 0, 16, 0, 0, 0xff, 0xff, 1, 1, 1, 1, 2, 2, 2, 2)
		}
		c04Body(k, e, abs.PTSi, body, "ts/three-selectors/cnt="+smallCell(cnt), true)
		c04Body(k, e, abs.PTSr, body, "ts/three-selectors/cnt="+smallCell(cnt), true)
	})
	// nested, type-specific structures: for every sub-type value the library (or the protocols it serves) gives a
	// meaning to, a short body whose octets are swept one at a time over small counts / lengths around the body
	// size; bases are (a) a body of the shape the sub-type calls for, (b) all octets equal to the body length,
	// (c) first octet = length, rest small.  Any octet may be a nested length or count field.
	nestedTypes := []int{1, 4, 5, 7, 9, 11, 14, 17, 24, 34, 35, 36, 37, 38, 39, 40, 41, 42, 43, 44}
	for t := 16384; t <= 16402; t++ {
		nestedTypes = append(nestedTypes, t)
	}
	for t := 55501; t <= 55506; t++ {
		nestedTypes = append(nestedTypes, t)
	}
	c.Family("win-nested-notify", len(nestedTypes)*3, func(k *core.Case) {
		e := env(k)
		typ := nestedTypes[k.Index/3]
		var base []byte
		switch k.Index % 3 {
		case 0:
			base = gen.NotifyData(k.R, uint16(typ))
			if len(base) > 12 {
				base = base[:12]
			}
		case 1:
			base = make([]byte, k.R.Pick(3, 4, 5, 6, 8))
			for i := range base {
				base[i] = byte(len(base))
			}
		default:
			base = k.R.Bytes(k.R.Pick(4, 5, 7, 9))
			for i := range base {
				base[i] &= 3
			}
			base[0] = byte(len(base))
		}
		L := len(base)
		vals := []int{0, 1, 2, 3, 4, 5, 6, 7, 8, L - 3, L - 2, L - 1, L, L + 1, L + 2, 16, 63, 64, 127, 128, 254, 255}
		probe := func(data []byte, cell string, deep bool) {
			body := append([]byte{byte(k.R.Pick(0, 1, 3)), 0, byte(typ >> 8), byte(typ)}, data...)
			c04Body(k, e, abs.PNotify, body, cell, deep)
		}
		probe(base, fmt.Sprintf("nested-notify/t=%d/base", typ), true)
		for cut := 0; cut < L; cut++ {
			probe(base[:cut], fmt.Sprintf("nested-notify/t=%d/prefix", typ), false)
		}
		for i := 0; i < L; i++ {
			for _, v := range vals {
				if v < 0 || v > 255 {
					continue
				}
				d := append([]byte{}, base...)
				d[i] = byte(v)
				probe(d, fmt.Sprintf("nested-notify/t=%d/oct%d=%s", typ, minI(i, 6), smallCell(v)), i == 2 && v == L)
			}
		}
		k.Count("nested_notify_types_swept", 1)
	})
	// the same for identification types, configuration attribute types, certificate encodings, authentication
	// methods and EAP method types / expanded vendor types
	c.Family("win-nested-other", 96, func(k *core.Case) {
		e := env(k)
		sub := byte(k.Index % 16)
		L := k.R.Pick(3, 4, 5, 8)
		base := make([]byte, L)
		for i := range base {
			base[i] = byte(L)
		}
		if k.R.Bool() {
			base = k.R.Bytes(L)
			for i := range base {
				base[i] &= 7
			}
			base[0] = byte(L)
		}
		vals := []int{0, 1, 2, 3, 4, 5, L - 1, L, L + 1, 16, 17, 63, 64, 128, 255}
		for i := 0; i < L; i++ {
			for _, v := range vals {
				d := append([]byte{}, base...)
				d[i] = byte(v)
				cellS := fmt.Sprintf("sub=%d/oct%d=%s", sub, minI(i, 6), smallCell(v))
				switch k.Index / 16 {
				case 0: // ID: type, 3 reserved, data
					c04Body(k, e, abs.PIDi, append([]byte{sub, 0, 0, 0}, d...), "nested-id/"+cellS, false)
					c04Body(k, e, abs.PIDr, append([]byte{sub, 0, 0, 0}, d...), "nested-id/"+cellS, false)
				case 1: // CP: cfg type, 3 reserved, attribute (type = sub, length consistent), then a second attribute header
					at := append([]byte{0, sub, 0, byte(L)}, d...)
					c04Body(k, e, abs.PCP, append([]byte{byte(1 + k.Index%4), 0, 0, 0}, at...), "nested-cp/"+cellS, i == 0 && v == L)
				case 2:
					c04Body(k, e, abs.PCERT, append([]byte{sub}, d...), "nested-cert/"+cellS, false)
					c04Body(k, e, abs.PCERTREQ, append([]byte{sub}, d...), "nested-certreq/"+cellS, false)
				case 3:
					c04Body(k, e, abs.PAUTH, append([]byte{sub, 0, 0, 0}, d...), "nested-auth/"+cellS, false)
					c04Body(k, e, abs.PKE, append([]byte{0, []byte{2, 14, 5, 19}[sub%4], 0, 0}, d...), "nested-ke/"+cellS, false)
				case 4: // EAP: code, id, length, method type, data
					mt := []byte{1, 2, 3, 4, 13, 23, 50, 254, 255}[int(sub)%9]
					pkt := append([]byte{byte(1 + sub%2), 7, 0, byte(5 + L), mt}, d...)
					c04Body(k, e, abs.PEAP, pkt, "nested-eap/"+cellS, i == 0 && v == L)
				default: // EAP expanded, vendor 3GPP (10415), vendor type 3: message id, spare, NAS length, NAS PDU
					pkt := append([]byte{byte(1 + sub%2), 7, 0, byte(12 + L), 254, 0x00, 0x28, 0xaf, 0, 0, 0, byte(sub % 5)}, d...)
					c04Body(k, e, abs.PEAP, pkt, "nested-eap-expanded/"+cellS, i == 0 && v == L)
				}
			}
		}
		k.Count("nested_other_swept", 1)
	})
	// pairs of type-like fields swept together: EAP Expanded Vendor-Id x Vendor-Type (RFC 3748 5.7 gives Vendor-Id 0 a
	// meaning of its own), EAP code x method type, notify protocol id x SPI size x type class
	c.Family("win-type-pairs", 12, func(k *core.Case) {
		e := env(k)
		vids := [][]byte{{0, 0, 0}, {0, 0x28, 0xaf}, {0xff, 0xff, 0xff}, {0, 0, 1}, {0x80, 0, 0}}
		vid := vids[k.Index%len(vids)]
		for vt := 0; vt <= 260; vt++ {
			for _, hi := range []byte{0, 1, 0xff} {
				if hi != 0 && vt > 8 {
					continue
				}
				for _, dl := range []int{0, 1, 2, 4, 9} {
					body := append([]byte{254, vid[0], vid[1], vid[2], hi, 0, byte(vt >> 8), byte(vt)}, k.R.Bytes(dl)...)
					for _, code := range []byte{1, 2} {
						pkt := append([]byte{code, 7, 0, byte(4 + len(body))}, body...)
						c04Body(k, e, abs.PEAP, pkt, fmt.Sprintf("type-pairs/vid=%x/vt=%s/dl=%d", vid, smallCell(vt), dl), vt%64 == 13 && dl == 2)
					}
					c04Probe(k, methodEntries[4], body, nil, fmt.Sprintf("type-pairs/method-body/vid=%x/vt=%s", vid, smallCell(vt)))
				}
			}
		}
		k.Count("vendor_id_x_vendor_type_pairs_swept", 1)
	})
	// DER-shaped bodies: RFC 7427 digital-signature AUTH data (length octet, AlgorithmIdentifier with absent / NULL /
	// structured parameters, signature), X.509-looking CERT data; every octet of each template swept over small
	// values, DER tags and long-form length markers, plus every prefix
	c.Family("win-der", 8, func(k *core.Case) {
		e := env(k)
		algs := [][]byte{
			{0x30, 0x0a, 0x06, 0x08, 0x2a, 0x86, 0x48, 0xce, 0x3d, 0x04, 0x03, 0x02},                                                 // ecdsa-with-SHA256, parameters absent
			{0x30, 0x0d, 0x06, 0x09, 0x2a, 0x86, 0x48, 0x86, 0xf7, 0x0d, 0x01, 0x01, 0x0b, 0x05, 0x00},                               // sha256WithRSAEncryption, NULL parameters
			{0x30, 0x0b, 0x06, 0x09, 0x2a, 0x86, 0x48, 0x86, 0xf7, 0x0d, 0x01, 0x01, 0x0a},                                           // RSASSA-PSS, parameters absent
			{0x30, 0x12, 0x06, 0x09, 0x2a, 0x86, 0x48, 0x86, 0xf7, 0x0d, 0x01, 0x01, 0x0a, 0x30, 0x05, 0xa2, 0x03, 0x02, 0x01, 0x20}, // RSASSA-PSS with parameters
			{0x30, 0x05, 0x06, 0x03, 0x2b, 0x65, 0x70},                                                                               // Ed25519
			{0x30, 0x02, 0x06, 0x00}, // empty OID
			{0x30, 0x00},             // empty sequence
			{0x30, 0x81, 0x0a, 0x06, 0x08, 0x2a, 0x86, 0x48, 0xce, 0x3d, 0x04, 0x03, 0x02}, // long-form length
		}
		alg := algs[k.Index%len(algs)]
		vals := []int{0, 1, 2, 3, 4, 5, 6, 0x0a, len(alg) - 2, len(alg), 0x30, 0x31, 0x7f, 0x80, 0x81, 0x82, 0x84, 0xff}
		for _, method := range []byte{14, 1, 2, 9} {
			for _, sigLen := range []int{0, 1, 8} {
				base := append([]byte{method, 0, 0, 0, byte(len(alg))}, alg...)
				base = append(base, k.R.Bytes(sigLen)...)
				c04Body(k, e, abs.PAUTH, base, fmt.Sprintf("der/auth-method=%d/base", method), method == 14 && sigLen == 8)
				for cut := 0; cut < len(base); cut++ {
					c04Body(k, e, abs.PAUTH, base[:cut], "der/auth-prefix", false)
				}
				if sigLen != 8 {
					continue
				}
				for i := 4; i < len(base); i++ {
					for _, v := range vals {
						d := append([]byte{}, base...)
						d[i] = byte(v)
						c04Body(k, e, abs.PAUTH, d, fmt.Sprintf("der/auth-method=%d/oct%d", method, minI(i-4, 8)), false)
					}
				}
			}
		}
		// CERT / CERTREQ with a DER SEQUENCE header
		for _, enc := range []byte{4, 1, 7, 12} {
			for _, hdr := range [][]byte{{0x30, 0x82, 0x00, 0x10}, {0x30, 0x10}, {0x30, 0x80}, {0x30, 0x84, 0xff, 0xff, 0xff, 0xff}, {0x30, 0x82, 0xff, 0xff}} {
				body := append(append([]byte{enc}, hdr...), k.R.Bytes(16)...)
				c04Body(k, e, abs.PCERT, body, fmt.Sprintf("der/cert-enc=%d", enc), false)
				c04Body(k, e, abs.PCERTREQ, body, fmt.Sprintf("der/certreq-enc=%d", enc), false)
			}
		}
		k.Count("der_shaped_bodies_swept", 1)
	})
	// text-shaped bodies: FQDN / RFC 822 / NAI edge cases under every ID type, as EAP identities and network names
	c.Family("win-names", 64, func(k *core.Case) {
		e := env(k)
		for i := 0; i < 40; i++ {
			name := gen.Name(k.R)
			if len(name) == 0 || len(name) > 300 {
				continue
			}
			for _, t := range []byte{2, 3, 1, 5, 11, 9} {
				kind := uint8(abs.PIDi)
				if i%2 == 1 {
					kind = abs.PIDr
				}
				c04Body(k, e, kind, append([]byte{t, 0, 0, 0}, name...), fmt.Sprintf("names/id-type=%d", t), i%8 == 0 && t <= 3)
			}
			pkt := append([]byte{byte(1 + i%2), 7, 0, byte(5 + len(name)), 1}, name...)
			pkt[2], pkt[3] = byte(len(pkt)>>8), byte(len(pkt))
			c04Body(k, e, abs.PEAP, pkt, "names/eap-identity", false)
			// AT_KDF_INPUT carrying the name
			words := (4 + len(name) + 3) / 4
			if words <= 255 {
				at := append([]byte{23, byte(words), byte(len(name) >> 8), byte(len(name))}, name...)
				for len(at) < words*4 {
					at = append(at, 0)
				}
				body := append([]byte{50, 1, 0, 0}, at...)
				ep := append([]byte{1, 9, 0, 0}, body...)
				ep[2], ep[3] = byte(len(ep)>>8), byte(len(ep))
				c04Body(k, e, abs.PEAP, ep, "names/at-kdf-input", false)
			}
		}
		k.Count("name_edge_cases_decoded", 1)
	})
	// KE / ID / AUTH / CERT / CERTREQ / Nonce / Vendor / SK: remaining 0..8
	c.Family("win-simple", 9*10, func(k *core.Case) {
		e := env(k)
		kinds := []uint8{abs.PKE, abs.PIDi, abs.PIDr, abs.PCERT, abs.PCERTREQ, abs.PAUTH, abs.PNonce, abs.PVendor, abs.PSK}
		kind := kinds[k.Index%9]
		rem := k.Index / 9
		c04Body(k, e, kind, k.R.Bytes(rem), fmt.Sprintf("simple/%s/rem=%d", abs.KindName[kind], rem), true)
	})
	// generic payload header: length field x remaining, every first-payload type
	c.Family("win-generic", 256, func(k *core.Case) {
		first := uint8(k.Index)
		for _, pl := range []int{0, 1, 3, 4, 5, 8, 12, 16, 17, 65535} {
			for _, rem := range []int{0, 1, 2, 3, 4, 8, 12, 13} {
				for _, fl := range []byte{0, 0x80, 0x7f} {
					b := append([]byte{0, fl}, u16(pl)...)
					b = append(b, k.R.Bytes(rem)...)
					if len(b) > rem {
						b = b[:maxI(rem, 0)]
					}
					c04Probe(k, eDecodePayload(first), b, nil, fmt.Sprintf("generic/first=%s/pl-rem=%d/fl=%x", firstClass(first), clampD(pl-rem), fl))
				}
			}
		}
		// chain of two: first type unknown, then everything
		for _, nx := range []byte{0, 33, 46, 48, 200} {
			b := []byte{nx, 0, 0, 8, 1, 2, 3, 4, 0, 0, 0, 5, 9}
			c04Probe(k, eDecodePayload(first), b, nil, "generic/chain2")
		}
	})
	// EAP: length field x actual length; method type x remaining
	c.Family("win-eap", 256, func(k *core.Case) {
		e := env(k)
		mt := byte(k.Index)
		for _, l := range []int{0, 3, 4, 5, 6, 8, 12, 13, 20, 65535} {
			for _, rem := range []int{0, 1, 2, 3, 4, 5, 7, 8, 9, 12, 16} {
				b := append([]byte{1, 7}, u16(l)...)
				b = append(b, mt)
				b = append(b, k.R.Bytes(rem)...)
				if rem < 5 {
					b = b[:rem]
				}
				c04Probe(k, eEAP, b, nil, fmt.Sprintf("eap/mt=%s/l-len=%d", eapClass(mt), clampD(l-len(b))))
				if mt == 1 || mt == 2 || mt == 3 || mt == 50 || mt == 254 {
					c04Body(k, e, abs.PEAP, b, "eap-payload/"+eapClass(mt), l == len(b))
				}
			}
		}
		for i, me := range methodEntries {
			for rem := 0; rem <= 12; rem++ {
				b := append([]byte{mt}, k.R.Bytes(rem)...)
				c04Probe(k, me, b[:rem], nil, fmt.Sprintf("method%d/rem=%d", i, rem))
				c04Probe(k, me, b, nil, fmt.Sprintf("method%d/typed/rem=%d", i, rem))
			}
		}
	})
	// AKA': attribute type 0..255 x length 0..255 x remaining 0..24
	c.Family("win-aka", 256*8, func(k *core.Case) {
		at := byte(k.Index % 256)
		part := k.Index / 256
		var als []int
		if k.Thorough() {
			for al := part; al < 256; al += 8 {
				als = append(als, al)
			}
		} else {
			// boundary lengths only: around 0, the fixed lengths 1/5, the uint8*4 overflow at 64, the top
			als = [][]int{{0, 8}, {1, 63}, {2, 64}, {3, 65}, {4, 127}, {5, 128}, {6, 254}, {7, 255}}[part]
		}
		for _, al := range als {
			need := 4*al - 2
			rems := []int{0, 1, 2, 3, 4, 5, 6, 24, need - 2, need - 1, need, need + 1, need + 2, need + 4}
			if k.Thorough() && al <= 8 {
				rems = rems[:0]
				for rem := 0; rem <= 40; rem++ {
					rems = append(rems, rem)
				}
			}
			for _, rem := range rems {
				if rem < 0 {
					continue
				}
				b := []byte{50, 1, 0, 0, at, byte(al)}
				b = append(b, k.R.Bytes(rem)...)
				c04Probe(k, methodEntries[3], b, nil, fmt.Sprintf("aka/at=%s/al=%s/rem-need=%d", akaClass(at), smallCell(al), clampD(rem-need)))
			}
			// exact fit and off by one, embedded in a whole EAP packet
			for _, d := range []int{-1, 0, 1} {
				n := 4*al - 2 + d
				if n < 0 || n > 1100 {
					continue
				}
				body := append([]byte{50, 1, 0, 0, at, byte(al)}, k.R.Bytes(n)...)
				pkt := append([]byte{1, 9}, u16(4+len(body))...)
				pkt = append(pkt, body...)
				c04Probe(k, eEAP, pkt, nil, fmt.Sprintf("aka-in-eap/at=%s/d=%d", akaClass(at), d))
			}
		}
	})
	// cipher: lengths 0..96 x recovered pad octet 0..255
	c.Family("win-cipher", 97*3, func(k *core.Case) {
		e := env(k)
		ki := k.Index % 3
		n := k.Index / 3
		key := e.ckey[ki]
		ent := eCipher(len(key), key)
		if n < 32 || n%16 != 0 {
			for i := 0; i < 4; i++ {
				c04Probe(k, ent, k.R.Bytes(n), nil, fmt.Sprintf("cipher/len=%d", n))
			}
			return
		}
		for v := 0; v < 256; v++ {
			pt := k.R.Bytes(n - 16)
			pt[len(pt)-1] = byte(v)
			iv := k.R.Bytes(16)
			ct, err := ref.CBCEncrypt(key, iv, pt)
			if err != nil {
				panic(err)
			}
			c04Probe(k, ent, append(iv, ct...), nil, fmt.Sprintf("cipher/len=%d/pad-vs-body=%d", n, clampD(v+1-(n-16))))
		}
	})
	// header: every length 0..40, length field boundaries
	c.Family("win-header", 41, func(k *core.Case) {
		e := env(k)
		n := k.Index
		for _, l := range []uint32{0, 27, 28, 29, uint32(n), uint32(n) + 1, 0x7fffffff, 0x80000000, 0xffffffff} {
			b := k.R.Bytes(n)
			if n >= 28 {
				b[24], b[25], b[26], b[27] = byte(l>>24), byte(l>>16), byte(l>>8), byte(l)
				b[16] = byte(k.R.Pick(0, 33, 41, 46, 48, 99))
			}
			c04Probe(k, eParseHeader, b, nil, fmt.Sprintf("header/len=%d", minI(n, 30)))
			c04Probe(k, eMsgDecode, b, nil, fmt.Sprintf("msg/len=%d", minI(n, 30)))
			c04Probe(k, eDecodeDecrypt("DecodeDecrypt[nokey,hdr=nil]", func() *security.IKESAKey { return nil }, false, true), b, nil, "dd-nokey")
			c04Probe(k, eDecodeDecrypt("DecodeDecrypt[nokey,hdr=parsed]", func() *security.IKESAKey { return nil }, true, false), b, nil, "dd-nokey")
			for i := 0; i < 3; i++ {
				c04Probe(k, eDecodeDecrypt(fmt.Sprintf("DecodeDecrypt[keyed,icv=%d]", e.raws[i].Suite.ICVLen()), e.keyFn(i), n%2 == 0, l%2 == 0), b, nil, "dd-keyed-short")
			}
		}
	})
	// SK bodies of every short length presented to keyed DecodeDecrypt
	c.Family("win-sk-short", 3*80, func(k *core.Case) {
		e := env(k)
		i := k.Index % 3
		n := k.Index / 3
		hdr := &abs.Msg{ISPI: k.R.U64(), RSPI: k.R.U64(), Major: 2, Exch: 37, MsgID: 9}
		body := k.R.Bytes(n)
		chain := append([]byte{byte(k.R.Pick(0, 33, 41)), 0, byte((n + 4) >> 8), byte(n + 4)}, body...)
		whole := append(ref.EncodeHeader(hdr, abs.PSK, 28+len(chain)), chain...)
		for _, pre := range []bool{false, true} {
			c04Probe(k, eDecodeDecrypt(fmt.Sprintf("DecodeDecrypt[keyed,icv=%d]", e.raws[i].Suite.ICVLen()), e.keyFn(i), pre, true), whole, nil, fmt.Sprintf("sk-short/n=%d", n))
		}
	})
}

// SK payloads whose checksum is VALID but whose content the cipher must refuse (IV only, ciphertext not a block
// multiple, pad length larger than the plaintext) or whose plaintext is arbitrary - presented to a receiver that
// builds a key object per datagram and to one that keeps ONE key object for all of them (an SA's lifetime): the
// n-th datagram must be handled like the first (no panic, no hang, same outcome as with a fresh object).
func c04ValidChecksum(c *core.Ctx) {
	c.Family("win-sk-valid-checksum", 3*2*4, func(k *core.Case) {
		e := newC04env(core.NewRng(uint64(k.Seed), 77))
		i := k.Index % 3
		longLived := (k.Index/3)%2 == 1
		s := e.raws[i].Suite
		senderInit := k.R.Bool()
		dir := e.raws[i].Dir(senderInit)
		shared := e.keyFn(i)()
		keyFn := e.keyFn(i)
		if longLived {
			keyFn = func() *security.IKESAKey { return shared }
		}
		mk := func(first uint8, ivct []byte) []byte {
			hdr := &abs.Msg{ISPI: k.R.U64(), RSPI: k.R.U64(), Major: 2, Exch: 37, MsgID: k.R.U32()}
			skLen := 4 + len(ivct) + s.ICVLen()
			w := append(ref.EncodeHeader(hdr, abs.PSK, 28+skLen), first, 0, byte(skLen>>8), byte(skLen))
			w = append(w, ivct...)
			mac := ref.HMAC(s.Integ, dir.Ka, w)
			return append(w, mac[:s.ICVLen()]...)
		}
		for n := 0; n <= 70; n++ {
			var ivct []byte
			cellS := ""
			switch {
			case n%16 == 0 && n >= 32 && k.R.Bool(): // decryptable, pad length octet larger than the plaintext / arbitrary plaintext
				pt := k.R.Bytes(n - 16)
				pt[len(pt)-1] = byte(k.R.Pick(len(pt), len(pt)+1, 255, len(pt)-1, 0))
				iv := k.R.Bytes(16)
				ct, err := ref.CBCEncrypt(dir.Ke, iv, pt)
				if err != nil {
					continue
				}
				ivct = append(iv, ct...)
				cellS = fmt.Sprintf("sk-valid-mac/padlen-%d", clampD(int(pt[len(pt)-1])-len(pt)))
			default:
				ivct = k.R.Bytes(n)
				cellS = fmt.Sprintf("sk-valid-mac/n%%16=%d/blocks=%d", n%16, minI(n/16, 3))
			}
			name := fmt.Sprintf("DecodeDecrypt[valid-checksum,fresh-key-object,icv=%d]", s.ICVLen())
			if longLived {
				name = fmt.Sprintf("DecodeDecrypt[valid-checksum,one-key-object-for-all,icv=%d]", s.ICVLen())
			}
			c04Probe(k, eDecodeDecrypt(name, keyFn, k.R.Bool(), !senderInit), mk(uint8(k.R.Pick(0, 33, 40, 41)), ivct), nil, cellS)
		}
		if longLived {
			// the key object still serves a genuine message afterwards
			m := &abs.Msg{ISPI: 1, RSPI: 2, Major: 2, Exch: 37, MsgID: 3, Payloads: []abs.Payload{{Kind: abs.PNonce, Data: abs.HB("still alive")}}}
			wire, err := ref.Protect(m, s, dir, k.R.Bytes(16), k.R.Bytes(12), nil)
			if err == nil {
				d, derr, p := libUnprotectWith(wire, nil, shared, !senderInit)
				if p != nil || derr != nil || !abs.Equal(m, d) {
					k.Violate("history", "key-object-unusable-after-refused-datagrams", fmt.Sprint(derr, p), M{"suite": s.Name()})
					return
				}
			}
			k.Count("one_key_object_served_all_datagrams", 1)
		}
	})
}

func clampD(d int) int {
	if d < -3 {
		return -3
	}
	if d > 3 {
		return 3
	}
	return d
}
func minI(a, b int) int {
	if a < b {
		return a
	}
	return b
}
func maxI(a, b int) int {
	if a > b {
		return a
	}
	return b
}
func smallCell(v int) string {
	switch {
	case v <= 8:
		return fmt.Sprint(v)
	case v < 248:
		return "mid"
	case v <= 256:
		return fmt.Sprint(v)
	}
	return "big"
}
func lenCell(l, avail int) string {
	switch {
	case l >= 65520:
		return fmt.Sprintf("64k-%d", 65535-l)
	case l <= 17:
		return fmt.Sprint(l)
	}
	return fmt.Sprintf("d%d", clampD(l-avail))
}
func firstClass(f uint8) string {
	if ref.IsKnownPayload(f) {
		return abs.KindName[f]
	}
	if f == 0 {
		return "0"
	}
	return "unsupported"
}
func eapClass(t byte) string {
	switch t {
	case 1, 2, 3, 50, 254:
		return fmt.Sprint(t)
	}
	return "other"
}
func akaClass(t byte) string {
	switch t {
	case 1, 2, 3, 11, 23, 24, 134:
		return fmt.Sprint(t)
	}
	if t < 128 {
		return "nonskippable"
	}
	return "skippable"
}

// ---------------------------------------------------------------------------
// mutation of valid encodings, truncation with the remainder behind the slice, random strings

func mutate(r *core.Rng, b []byte) []byte {
	o := append([]byte{}, b...)
	if len(o) == 0 {
		return o
	}
	n := 1 + r.Intn(3)
	for i := 0; i < n; i++ {
		switch r.Intn(9) {
		case 0: // bit flip
			o[r.Intn(len(o))] ^= 1 << uint(r.Intn(8))
		case 1: // byte to boundary value
			o[r.Intn(len(o))] = byte(r.Pick(0, 1, 0x7f, 0x80, 0xff, 0xfe, 4, 8))
		case 2: // 16-bit field to boundary
			if len(o) >= 2 {
				p := r.Intn(len(o) - 1)
				v := r.Pick(0, 1, 3, 4, 7, 8, 0xffff, 0xfffc, 0x8000, len(o), len(o)-p, len(o)-p-1)
				o[p], o[p+1] = byte(v>>8), byte(v)
			}
		case 3: // truncate
			o = o[:r.Intn(len(o)+1)]
		case 4: // extend
			o = append(o, r.Bytes(1+r.Intn(20))...)
		case 5: // delete a span
			if len(o) > 2 {
				p := r.Intn(len(o) - 1)
				q := p + 1 + r.Intn(minI(8, len(o)-p-1))
				o = append(o[:p], o[q:]...)
			}
		case 6: // duplicate a span
			if len(o) > 2 {
				p := r.Intn(len(o) - 1)
				q := p + 1 + r.Intn(minI(16, len(o)-p-1))
				o = append(o[:q], append(append([]byte{}, o[p:q]...), o[q:]...)...)
			}
		case 7: // increment / decrement
			p := r.Intn(len(o))
			if r.Bool() {
				o[p]++
			} else {
				o[p]--
			}
		case 8: // set a random byte
			o[r.Intn(len(o))] = r.Byte()
		}
		if len(o) == 0 {
			return o
		}
	}
	return o
}

func fixLen(b []byte) {
	if len(b) >= 28 {
		n := len(b)
		b[24], b[25], b[26], b[27] = byte(n>>24), byte(n>>16), byte(n>>8), byte(n)
	}
}

func c04Mutations(c *core.Ctx) {
	c.Family("mutate-msg", c.N(6000, 1500000), func(k *core.Case) {
		e := newC04env(core.NewRng(uint64(k.Seed), 77))
		m := gen.Msg(k.R, gen.Opt{AllowEmpty: true, MaxPayloads: 4})
		wire, err := ref.EncodeMsg(m, &ref.Opts{Noise: k.R.Byte})
		if err != nil || len(wire) > 6000 {
			return
		}
		mu := mutate(k.R, wire)
		if k.R.Bool() {
			fixLen(mu)
		}
		c04Probe(k, eMsgDecode, mu, nil, "mut/"+abs.Kinds(m))
		if len(mu) >= 28 {
			c04Probe(k, eDecodeDecrypt("DecodeDecrypt[nokey,hdr=parsed]", func() *security.IKESAKey { return nil }, true, true), mu, nil, "mut-dd")
			c04Probe(k, eDecodePayload(mu[16]), mu[28:], nil, "mut-dp")
			// the mutated chain as the plaintext of a valid SK payload
			hdr := &abs.Msg{ISPI: 5, RSPI: 6, Major: 2, Exch: 36, MsgID: 3}
			e.protectedProbe(k, hdr, mu[16], mu[28:], "mut/"+abs.Kinds(m))
		}
		// truncation presented with the cut-off remainder lying behind the slice
		if len(wire) > 1 {
			cut := k.R.Intn(len(wire))
			c04Probe(k, eMsgDecode, wire[:cut], wire[cut:], "trunc/"+abs.Kinds(m))
		}
	})
	c.Family("mutate-payload", c.N(8000, 2000000), func(k *core.Case) {
		e := newC04env(core.NewRng(uint64(k.Seed), 77))
		kinds := gen.AllKinds()
		kind := kinds[k.Index%len(kinds)]
		body, err := ref.EncodeBody(gen.Payload(k.R, kind), &ref.Opts{Noise: k.R.Byte})
		if err != nil || len(body) > 5000 {
			return
		}
		mu := mutate(k.R, body)
		c04Body(k, e, kind, mu, "mutp/"+abs.KindName[kind], k.Index%4 == 0)
		if len(body) > 1 {
			cut := k.R.Intn(len(body))
			c04Probe(k, payloadEntries[kind], body[:cut], body[cut:], "truncp/"+abs.KindName[kind])
		}
	})
	c.Family("mutate-eap", c.N(5000, 1000000), func(k *core.Case) {
		var pe *abs.EAP
		if k.Index%2 == 0 {
			pe = &abs.EAP{Code: 1, ID: k.R.Byte(), Method: &abs.Method{Type: abs.MAkaPrime, AKA: gen.AKA(k.R)}}
		} else {
			pe = gen.EAP(k.R)
		}
		b, err := ref.EncodeEAP(pe, &ref.Opts{AKANoise: k.R.Byte, AKAOrder: true})
		if err != nil {
			return
		}
		mu := mutate(k.R, b)
		if k.R.Bool() && len(mu) >= 4 {
			mu[2], mu[3] = byte(len(mu)>>8), byte(len(mu))
		}
		c04Probe(k, eEAP, mu, nil, "mut-eap/"+pe.Shape())
		if len(mu) > 4 {
			c04Probe(k, methodEntries[k.Index%5], mu[4:], nil, "mut-method")
		}
		if len(b) > 1 {
			cut := k.R.Intn(len(b))
			c04Probe(k, eEAP, b[:cut], b[cut:], "trunc-eap")
		}
	})
	c.Family("mutate-protected", c.N(2000, 500000), func(k *core.Case) {
		e := newC04env(core.NewRng(uint64(k.Seed), 77))
		i := k.Index % 3
		init := k.R.Bool()
		m := gen.Msg(k.R, gen.Opt{Protected: true, MaxPayloads: 3, AllowEmpty: true})
		inner, first, err := ref.EncodeChain(m.Payloads, nil)
		if err != nil || len(inner) > 4000 {
			return
		}
		padn := (16 - (len(inner)+1)%16) % 16
		wire, err := ref.ProtectRaw(m, first, inner, e.raws[i].Suite, e.raws[i].Dir(init), k.R.Bytes(16), k.R.Bytes(padn), nil)
		if err != nil {
			return
		}
		mu := mutate(k.R, wire)
		if k.R.Bool() {
			fixLen(mu)
		}
		for j := 0; j < 3; j++ {
			c04Probe(k, eDecodeDecrypt(fmt.Sprintf("DecodeDecrypt[keyed,icv=%d]", e.raws[j].Suite.ICVLen()), e.keyFn(j), k.R.Bool() && len(mu) >= 28, !init), mu, nil, "mut-prot")
		}
		if len(wire) > 1 {
			cut := k.R.Intn(len(wire))
			if cut >= 28 || true {
				c04Probe(k, eDecodeDecrypt("DecodeDecrypt[keyed,truncated]", e.keyFn(i), false, !init), wire[:cut], wire[cut:], "trunc-prot")
			}
		}
	})
	// implemented cleartext payloads in FRONT of an SK payload (legal chain, the datagram then does not "start with SK")
	c.Family("cleartext-before-SK", c.N(1500, 200000), func(k *core.Case) {
		e := newC04env(core.NewRng(uint64(k.Seed), 77))
		i := k.Index % 3
		init := k.R.Bool()
		m := gen.Msg(k.R, gen.Opt{Protected: true, MaxPayloads: 2, AllowEmpty: true})
		inner, first, err := ref.EncodeChain(m.Payloads, nil)
		if err != nil || len(inner) > 3000 {
			return
		}
		var outer []abs.Payload
		for j := 0; j < 1+k.R.Intn(2); j++ {
			outer = append(outer, gen.Payload(k.R, uint8(k.R.Pick(abs.PNotify, abs.PVendor, abs.PNonce, abs.PNotify))))
		}
		padn := (16 - (len(inner)+1)%16) % 16
		wire, err := ref.ProtectOuter(m, first, inner, e.raws[i].Suite, e.raws[i].Dir(init), k.R.Bytes(16), k.R.Bytes(padn), nil, outer)
		if err != nil {
			return
		}
		if k.R.Chance(1, 3) {
			wire = mutate(k.R, wire)
			fixLen(wire)
		}
		c04Probe(k, eMsgDecode, wire, nil, "clear+SK")
		for _, pre := range []bool{false, true} {
			if pre && len(wire) < 28 {
				continue
			}
			c04Probe(k, eDecodeDecrypt("DecodeDecrypt[keyed,cleartext-before-SK]", e.keyFn(i), pre, !init), wire, nil, "clear+SK")
			c04Probe(k, eDecodeDecrypt("DecodeDecrypt[nokey,cleartext-before-SK]", func() *security.IKESAKey { return nil }, pre, !init), wire, nil, "clear+SK")
		}
	})
	c.Family("random", c.N(3000, 600000), func(k *core.Case) {
		e := newC04env(core.NewRng(uint64(k.Seed), 77))
		n := k.R.Pick(0, 1, 27, 28, 29, 32, 40, 64, 100, 300, 1500)
		if k.R.Chance(1, 50) {
			n = k.R.Pick(65534, 65535, 40000)
		}
		b := k.R.Bytes(n)
		if n >= 28 && k.R.Chance(3, 4) { // plausible header
			b[16] = byte(33 + k.R.Intn(16))
			b[17] = 0x20
			fixLen(b)
			if n >= 32 && k.R.Bool() {
				l := n - 28
				if l > 0xffff {
					l = 0xffff
				}
				b[30], b[31] = byte(l>>8), byte(l)
			}
		}
		c04Probe(k, eMsgDecode, b, nil, "random")
		c04Probe(k, eParseHeader, b, nil, "random")
		c04Probe(k, eEAP, b, nil, "random")
		c04Probe(k, eDecodeDecrypt("DecodeDecrypt[keyed,random]", e.keyFn(k.Index%3), k.R.Bool() && n >= 28, k.R.Bool()), b, nil, "random")
		if n < 2000 {
			for kind, pe := range payloadEntries {
				_ = kind
				c04Probe(k, pe, b, nil, "random")
			}
			for _, me := range methodEntries {
				c04Probe(k, me, b, nil, "random")
			}
			c04Probe(k, eCipher(16, e.ckey[0]), b, nil, "random")
		}
	})
}

func c04(c *core.Ctx) {
	c.Info("rule", "case = (decoding entry point, input octets) presented in 4 memory placements + a repeated call; inputs: enumerated field windows (all 256 values of each 8-bit size field x boundary sets of 16-bit lengths x remaining-buffer windows for SA/transform/Notify/Delete/CP/TS/generic header/EAP/AKA'/cipher/header/SK), "+
		"structure-aware mutations of valid reference encodings (also as the plaintext of a validly protected SK payload), truncations with the cut-off remainder behind the slice, random strings; "+
		"oracle: value or error, no panic, <= 2*len+64 hooked loop steps, identical outcome across placements and repetition, input and surroundings unchanged; distinct = (entry point, outcome class, boundary cell)")
	c.Info("assumptions", "loops without a progress hook are only covered by the wall-clock watchdog (inconclusive, not a verdict) || the race build adds checkptr; the asan build adds red-zone checks")
	installStepHook()
	defer ike.VerifSetHook(nil)
	if v := variant(); v != "plain" {
		c.Count("sanitizer_build_"+v, 1)
	}
	// FIRST in every process of this check: hostile EAP-AKA' / payload-type inputs whose refusal names a type code, decoded by
	// 8 goroutines at once into their own objects - the first time each code is met in this process happens while other
	// decoders run (the race build watches; every build compares the outcomes)
	c.Family("first-hostile-decodes-overlap", 32, func(k *core.Case) {
		var wg sync.WaitGroup
		outs := make([]string, 8)
		for g := 0; g < 8; g++ {
			wg.Add(1)
			go func(g int) {
				defer wg.Done()
				defer func() {
					if x := recover(); x != nil {
						outs[g] = fmt.Sprint("PANIC ", x)
					}
				}()
				var sb strings.Builder
				for j := 0; j < 8; j++ {
					at := byte(k.Index*8 + (j+g)%8)
					for _, pkt := range [][]byte{
						{1, 7, 0, 12, 50, 1, 0, 0, at, 0, 0, 0},             // length octet 0
						{1, 7, 0, 13, 50, 1, 0, 0, at, 2, 0, 0, 9},          // cut inside the value
						{2, 7, 0, 9, 50, 1, 0, 0, at},                       // cut after the type
						{1, 7, 0, 16, 50, 1, 0, 0, at, 2, 0, 0, 1, 2, 3, 4}, // well-formed
					} {
						err := new(eap.EAP).Unmarshal(append([]byte{}, pkt...))
						fmt.Fprintf(&sb, "%v;", err != nil)
					}
					// a message whose only payload is a critical one of this type code, with a short body
					dgm := append([]byte{1, 2, 3, 4, 5, 6, 7, 8, 0, 0, 0, 0, 0, 0, 0, 0, at, 0x20, 34, 8, 0, 0, 0, 1, 0, 0, 0, 34}, 0, 0x80, 0, 6, 1, 2)
					err := new(message.IKEMessage).Decode(dgm)
					fmt.Fprintf(&sb, "%v|", err != nil)
				}
				outs[g] = sb.String()
			}(g)
		}
		wg.Wait()
		k.Eval(8 * 8 * 5)
		// every goroutine saw the same 8 codes (in rotated order): the multiset of outcomes per code is the same
		for g := 0; g < 8; g++ {
			if strings.HasPrefix(outs[g], "PANIC") {
				k.Violate("panic", "overlapping-first-decodes: "+outs[g], "panic", M{"codes_from": k.Index * 8})
				return
			}
			a, b := strings.Split(outs[0], "|"), strings.Split(outs[g], "|")
			sort.Strings(a)
			sort.Strings(b)
			if strings.Join(a, "|") != strings.Join(b, "|") {
				k.Violate("mismatch", "overlapping-first-decodes-disagree", "goroutine 0: "+outs[0]+" goroutine "+fmt.Sprint(g)+": "+outs[g], M{"codes_from": k.Index * 8})
				return
			}
		}
		k.Count("first_hostile_decodes_overlapping", 1)
	})
	c.Require("first_hostile_decodes_overlapping")
	c04Windows(c)
	c04ValidChecksum(c)
	c04Mutations(c)
	for s, i := range siteIndex {
		c.Count("hook_hits_"+s, int(atomic.LoadInt64(&siteHits[i])))
	}
	if variant() == "plain" {
		c.Require("der_shaped_bodies_swept", "vendor_id_x_vendor_type_pairs_swept", "name_edge_cases_decoded", "one_key_object_served_all_datagrams", "nested_notify_types_swept", "nested_other_swept", "hook_hits_message.container.decode", "hook_hits_message.sa.proposal", "hook_hits_message.sa.transform", "hook_hits_message.delete.spi",
			"hook_hits_message.cp.attribute", "hook_hits_message.tsi.selector", "hook_hits_message.tsr.selector", "hook_hits_eap.akaprime.attribute", "hook_hits_ike.decrypt.verified")
	}
}
