package props

import (
	"bytes"
	"fmt"
	"sync"

	"github.com/free5gc/ike/eap"

	"verifharness/abs"
	"verifharness/bridge"
	"verifharness/core"
	"verifharness/gen"
	"verifharness/ref"
)

func init() {
	core.Register("C14", c14)
	core.Register("C15", c15)
}

func c14One(k *core.Case, e *abs.EAP, tag string) {
	k.Eval(1)
	w := M{"eap": e.Canon(), "case": tag}
	var le *eap.EAP
	var wire, wire2 []byte
	var err, err2 error
	var builtObs *abs.EAP
	p := core.Try(func() {
		le, err = bridge.BuildEAP(e)
		if err != nil {
			return
		}
		builtObs = bridge.ObserveEAP(le)
		wire, err = le.Marshal()
		if err == nil {
			wire2, err2 = le.Marshal()
		}
	})
	if p != nil {
		k.Violate("panic", "eap-marshal: "+p.Sig(), "panic while building/marshalling", panicData(p, w))
		return
	}
	if err != nil {
		k.Violate("encode-error", "eap-encode-error: "+classifyErr(err), errStr(err), w)
		return
	}
	// a value read back from the object it was set on is exactly the value that was set
	if !abs.EqualEAP(e, builtObs) {
		k.Violate("mismatch", "getattr-after-set-differs", "GetAttr on the freshly built packet: "+builtObs.JSON()+" != "+e.JSON(), w)
		return
	}
	w["wire"] = core.HexClip(wire, 2048)
	if err2 != nil || !bytes.Equal(wire, wire2) {
		k.Violate("nondeterministic", "marshal-twice-differs", "two Marshal calls on the unmodified packet differ", w)
		return
	}
	if e.Method != nil && e.Method.AKA != nil && k.Index%16 == 0 {
		for i := 0; i < 50; i++ {
			wn, errn := le.Marshal()
			if errn != nil || !bytes.Equal(wire, wn) {
				k.Violate("nondeterministic", "marshal-repeated-differs", fmt.Sprintf("Marshal #%d differs", i+3), w)
				return
			}
		}
		k.Count("marshal_x50", 1)
	}
	// encodings handed out earlier stay what they were when OTHER packets are encoded afterwards (packet level and
	// method-data level: both Marshal methods are exported)
	if le.EapTypeData != nil {
		var td, tdKeep []byte
		hp := core.Try(func() {
			td, _ = le.EapTypeData.Marshal()
			tdKeep = append([]byte{}, td...)
			for i := 0; i < 2; i++ {
				if o, oerr := bridge.BuildEAP(gen.EAP(k.R)); oerr == nil {
					if i == 0 && o.EapTypeData != nil {
						_, _ = o.EapTypeData.Marshal()
					}
					_, _ = o.Marshal()
				}
			}
			if o, oerr := bridge.BuildEAP(&abs.EAP{Code: 1, ID: 1, Method: &abs.Method{Type: abs.MAkaPrime, AKA: gen.AKAWith(k.R, 1, 127)}}); oerr == nil {
				_, _ = o.EapTypeData.Marshal()
			}
		})
		if hp != nil {
			k.Violate("panic", "eap-marshal-other: "+hp.Sig(), "panic", panicData(hp, w))
			return
		}
		if !bytes.Equal(td, tdKeep) || !bytes.Equal(wire, wire2) {
			k.Violate("history", "earlier-returned-encoding-changed-by-later-Marshal", "an encoding returned by Marshal changed when other packets were marshalled afterwards", w)
			return
		}
		k.Count("held_encodings_rechecked", 1)
	}
	// framing by the independent strict parser
	pe, perr := ref.ParseEAP(wire, true)
	if perr != nil {
		k.Violate("malformed", "eap-strict-parse: "+classifyErr(perr), "independent strict parser rejects the packet: "+perr.Error(), w)
		return
	}
	if !abs.EqualEAP(e, pe) {
		k.Violate("mismatch", "eap-forward-mismatch", "independent parser recovers "+pe.JSON()+" from the encoding of "+e.JSON(), w)
		return
	}
	d, derr, dp := libEAPUnmarshal(wire)
	if dp != nil {
		k.Violate("panic", "eap-unmarshal: "+dp.Sig(), "Unmarshal panicked on the library's own packet", panicData(dp, w))
		return
	}
	if derr != nil {
		k.Violate("decode-error", "eap-decode-error: "+classifyErr(derr), errStr(derr), w)
		return
	}
	if !abs.EqualEAP(e, d) {
		k.Violate("mismatch", "eap-roundtrip-mismatch", "decode(encode(e)) = "+d.JSON()+" != "+e.JSON(), w)
		return
	}
	k.Distinct(tag + "|" + e.Shape())
	if k.WantSample() {
		k.Sample(w)
	}
}

// setter size rules, exhaustively over sizes 0..300
func c14Setter(k *core.Case) {
	n := k.Index
	rules := []struct {
		t  uint8
		ok bool
	}{
		{abs.ATRand, n == 16}, {abs.ATAutn, n == 16}, {abs.ATMac, n == 16}, {abs.ATKdf, n == 2}, {abs.ATRes, n >= 4 && n <= 16},
	}
	for _, r := range rules {
		k.Eval(1)
		a := eap.NewEapAkaPrime(eap.SubtypeAkaChallenge)
		val := k.R.Bytes(n)
		var err error
		p := core.Try(func() { err = a.SetAttr(eap.EapAkaPrimeAttrType(r.t), val) })
		w := M{"attr": r.t, "size": n}
		if p != nil {
			k.Violate("panic", "setattr: "+p.Sig(), "SetAttr panicked", panicData(p, w))
			continue
		}
		if (err == nil) != r.ok {
			k.Violate("setter", fmt.Sprintf("setter-size-rule/attr%d/accepted=%v", r.t, err == nil), fmt.Sprintf("SetAttr(%d, %d octets): accepted=%v, rule says %v", r.t, n, err == nil, r.ok), w)
			continue
		}
		if err == nil {
			at, gerr := a.GetAttr(eap.EapAkaPrimeAttrType(r.t))
			if gerr != nil || !bytes.Equal(at.GetValue(), val) {
				k.Violate("mismatch", fmt.Sprintf("getattr-after-set-differs/attr%d", r.t), fmt.Sprintf("%x != %x", at.GetValue(), val), w)
				continue
			}
			// the caller's slice is not aliased
			val[0] ^= 0xff
			at2, _ := a.GetAttr(eap.EapAkaPrimeAttrType(r.t))
			if bytes.Equal(at2.GetValue(), val) {
				k.Violate("aliasing", "setattr-keeps-callers-slice", "modifying the slice after SetAttr changed the stored value", w)
			}
		} else if _, gerr := a.GetAttr(eap.EapAkaPrimeAttrType(r.t)); gerr == nil {
			k.Violate("setter", "refused-value-stored", "SetAttr returned an error but the attribute is present", w)
		}
		k.Distinct(fmt.Sprintf("setter|%d|%v|%d", r.t, r.ok, minI(n, 20)))
	}
	// an unsupported attribute type is refused
	for _, t := range []uint8{0, 4, 12, 14, 22, 25, 133, 135, 255} {
		a := eap.NewEapAkaPrime(1)
		if err := a.SetAttr(eap.EapAkaPrimeAttrType(t), k.R.Bytes(n)); err == nil && n == 0 {
			k.Count("setter_accepts_other_type(not judged)", 1)
		}
	}
}

// c14History: a sequence of SetAttr calls on ONE EapAkaPrime object (fresh, or obtained by decoding a
// reference-encoded packet in arbitrary attribute order). The final content must be the last value set per
// type (plus, for a decoded object, the received attributes not overwritten); framing must be clean
// (zero padding!), Marshal deterministic, and the packet must decode to the same content.
func c14History(k *core.Case, decoded bool) {
	noiseFor(k)
	k.Eval(1)
	final := map[uint8]abs.HB{}
	var steps []string
	var le *eap.EAP
	var ap *eap.EapAkaPrime
	subtype := uint8(k.R.Pick(1, 2, 4, 5, 12, 13, 14))
	code, id := uint8(k.R.Pick(1, 2)), k.R.Byte()
	if decoded {
		a := gen.AKAWith(k.R, subtype, k.R.Intn(128))
		for x := len(a.Attrs) - 1; x > 0; x-- {
			y := k.R.Intn(x + 1)
			a.Attrs[x], a.Attrs[y] = a.Attrs[y], a.Attrs[x]
		}
		wire, err := ref.EncodeEAP(&abs.EAP{Code: code, ID: id, Method: &abs.Method{Type: abs.MAkaPrime, AKA: a}}, &ref.Opts{AKAOrder: true})
		if err != nil {
			return
		}
		le = new(eap.EAP)
		if err := le.Unmarshal(wire); err != nil {
			k.Violate("decode-error", "eap-decode-error: "+classifyErr(err), errStr(err), M{"wire": core.Hex(wire)})
			return
		}
		ap = le.EapTypeData.(*eap.EapAkaPrime)
		for _, at := range a.Attrs {
			final[at.Type] = at.Value
			steps = append(steps, fmt.Sprintf("recv(%d,%d)", at.Type, len(at.Value)))
		}
	} else {
		ap = eap.NewEapAkaPrime(eap.EapAkaSubtype(subtype))
		le = &eap.EAP{Code: eap.EapCode(code), Identifier: id, EapTypeData: ap}
	}
	n := 2 + k.R.Intn(8)
	types := []uint8{abs.ATRand, abs.ATAutn, abs.ATRes, abs.ATMac, abs.ATKdfInput, abs.ATKdf, abs.ATCheckcode, abs.ATRes, abs.ATKdfInput, abs.ATKdfInput}
	for i := 0; i < n; i++ {
		if k.R.Chance(1, 4) {
			// a call the setter refuses: the object stays as it is (attributes present keep value AND framing, absent ones stay absent)
			bad := []struct {
				t uint8
				n int
			}{{abs.ATRand, 15}, {abs.ATAutn, 17}, {abs.ATMac, 0}, {abs.ATKdf, 1}, {abs.ATKdf, 3}, {abs.ATRes, 3}, {abs.ATRes, 17}, {4, 14}}[k.R.Intn(8)]
			var err error
			pn := core.Try(func() { err = ap.SetAttr(eap.EapAkaPrimeAttrType(bad.t), k.R.Bytes(bad.n)) })
			steps = append(steps, fmt.Sprintf("refused(%d,%d)", bad.t, bad.n))
			if pn != nil || err == nil {
				k.Violate("setter", "setattr-accepted-illegal-value/history", fmt.Sprint(err, pn), M{"steps": steps})
				return
			}
			k.Count("refused_setter_calls_in_histories", 1)
			continue
		}
		if k.R.Chance(1, 5) {
			// set again to a value that differs from the current one only by trailing 00 octets (another bit length,
			// same 4-octet words)
			for _, t := range []uint8{abs.ATRes, abs.ATKdfInput} {
				cur, ok := final[t]
				if !ok {
					continue
				}
				v := append(abs.HB{}, cur...)
				if len(v) > 0 && v[len(v)-1] == 0 && k.R.Bool() {
					v = v[:len(v)-1]
				} else {
					v = append(v, 0)
				}
				if t == abs.ATRes && (len(v) < 4 || len(v) > 16) {
					continue
				}
				var err error
				pn := core.Try(func() { err = ap.SetAttr(eap.EapAkaPrimeAttrType(t), append([]byte{}, v...)) })
				steps = append(steps, fmt.Sprintf("set-zero-extended(%d,%d)", t, len(v)))
				if pn != nil || err != nil {
					k.Violate("setter", "setattr-refused-legal-value", fmt.Sprint(err, pn), M{"steps": steps})
					return
				}
				final[t] = v
				k.Count("values_differing_only_by_trailing_zero_octets_set", 1)
			}
			continue
		}
		t := types[k.R.Intn(len(types))]
		var v abs.HB
		switch t {
		case abs.ATRand, abs.ATAutn, abs.ATMac:
			v = gen.DataN(k.R, 16)
		case abs.ATRes:
			v = k.R.Bytes(k.R.Range(4, 16)) // non-zero octets: stale padding would show
		case abs.ATKdfInput:
			v = k.R.Bytes(k.R.Pick(0, 1, 2, 3, 5, 6, 7, 9, 13, 30, 31, 33, k.R.Range(0, 300)))
		case abs.ATKdf:
			v = k.R.Bytes(2)
		default:
			v = k.R.Bytes(k.R.Pick(0, 20, 32))
		}
		for j := range v {
			if v[j] == 0 {
				v[j] = 0xee
			}
		}
		if v == nil {
			v = abs.HB{}
		}
		var err error
		pn := core.Try(func() { err = ap.SetAttr(eap.EapAkaPrimeAttrType(t), v) })
		steps = append(steps, fmt.Sprintf("set(%d,%d)", t, len(v)))
		if pn != nil || err != nil {
			k.Violate("setter", "setattr-refused-legal-value", fmt.Sprint(err, pn), M{"steps": steps})
			return
		}
		final[t] = v
	}
	want := &abs.EAP{Code: code, ID: id, Method: &abs.Method{Type: abs.MAkaPrime, AKA: &abs.AKA{Subtype: subtype}}}
	for t, v := range final {
		want.Method.AKA.Attrs = append(want.Method.AKA.Attrs, abs.AKAAttr{Type: t, Value: v})
	}
	w := M{"steps": steps, "decoded_first": decoded, "expected": want.Canon()}
	if got := bridge.ObserveEAP(le); !abs.EqualEAP(want, got) {
		k.Violate("mismatch", "getattr-after-set-differs/history", got.JSON()+" != "+want.JSON(), w)
		return
	}
	var wire []byte
	var err error
	pn := core.Try(func() { wire, err = le.Marshal() })
	if pn != nil || err != nil {
		k.Violate("encode-error", "eap-encode-error/history", fmt.Sprint(err, pn), w)
		return
	}
	w["wire"] = core.HexClip(wire, 2048)
	for i := 0; i < 40; i++ {
		wn, errn := le.Marshal()
		if errn != nil || !bytes.Equal(wire, wn) {
			k.Violate("nondeterministic", "marshal-repeated-differs/history", fmt.Sprintf("Marshal #%d of the unmodified packet differs from the first", i+2), w)
			return
		}
	}
	pe, perr := ref.ParseEAP(wire, true)
	if perr != nil {
		k.Violate("malformed", "eap-strict-parse/history: "+classifyErr(perr), "independent strict parser rejects the packet: "+perr.Error(), w)
		return
	}
	if !abs.EqualEAP(want, pe) {
		k.Violate("mismatch", "eap-forward-mismatch/history", pe.JSON()+" != "+want.JSON(), w)
		return
	}
	d, derr, dp := libEAPUnmarshal(wire)
	if dp != nil || derr != nil || !abs.EqualEAP(want, d) {
		k.Violate("mismatch", "eap-roundtrip-mismatch/history", fmt.Sprint(derr, dp), w)
		return
	}
	if decoded {
		k.Count("aka_histories_decoded", 1)
	} else {
		k.Count("aka_histories_fresh", 1)
	}
	k.Distinct(fmt.Sprintf("hist|%v|%d|%s", decoded, len(steps), want.Shape()))
}

func c14(c *core.Ctx) {
	c.Info("rule", "case = EAP packet (any code 0..255, identifier, method: none / Identity / Notification / Nak >= 1 octet / Expanded any vendor data incl. EAP-5G / EAP-AKA' with any subset of the 7 settable attributes, RES 4..16, KDF_INPUT 0..300, CHECKCODE 0/20/32): "+
		"build through the API, GetAttr on the built object, Marshal x2 (x50 on a sample), independent strict RFC 3748/4187/5448 parse (length, zero padding, bit lengths, words), Unmarshal, compare; setter size rules for ALL sizes 0..300 of RAND/AUTN/MAC/KDF/RES; "+
		"distinct = structural shape (code class, method, attribute types with value length mod 4)")
	c.Info("assumptions", "CHECKCODE sizes are the three the property names (the setter accepts any size but only multiples of four can be framed)")
	c.Family("setter-sizes", 301, c14Setter)
	c.Family("codes", 256*4, func(k *core.Case) {
		code := uint8(k.Index % 256)
		e := &abs.EAP{Code: code, ID: uint8(k.R.Pick(0, 1, 255, int(k.R.Byte())))}
		if code != 3 && code != 4 && k.Index/256 > 0 {
			e.Method = gen.Method(k.R)
		}
		c14One(k, e, "codes")
	})
	c.Family("aka-subsets", 128*c.N(8, 400), func(k *core.Case) {
		e := &abs.EAP{Code: uint8(k.R.Pick(1, 2)), ID: k.R.Byte(), Method: &abs.Method{Type: abs.MAkaPrime,
			AKA: gen.AKAWith(k.R, uint8(k.R.Pick(1, 2, 4, 5, 12, 13, 14, int(k.R.Byte()))), k.Index%128)}}
		c14One(k, e, "aka-subsets")
	})
	c.Family("aka-kdfinput-all-sizes", 301, func(k *core.Case) {
		a := &abs.AKA{Subtype: 1, Attrs: []abs.AKAAttr{{Type: abs.ATKdfInput, Value: gen.DataN(k.R, k.Index)}}}
		if k.Index%2 == 0 {
			a.Attrs = append(a.Attrs, abs.AKAAttr{Type: abs.ATMac, Value: gen.DataN(k.R, 16)})
		}
		c14One(k, &abs.EAP{Code: 1, ID: k.R.Byte(), Method: &abs.Method{Type: abs.MAkaPrime, AKA: a}}, "kdfinput-size")
	})
	c.Family("aka-res-all-sizes", 13*4, func(k *core.Case) {
		a := &abs.AKA{Subtype: 1, Attrs: []abs.AKAAttr{{Type: abs.ATRes, Value: gen.DataN(k.R, 4+k.Index%13)}}}
		c14One(k, &abs.EAP{Code: 2, ID: k.R.Byte(), Method: &abs.Method{Type: abs.MAkaPrime, AKA: a}}, "res-size")
	})
	// histories on one EAP-AKA' object: attributes set, then set again with other sizes (also after a decode)
	c.Family("aka-overwrite", c.N(6000, 600000), func(k *core.Case) { c14History(k, false) })
	c.Family("aka-amend-decoded", c.N(6000, 600000), func(k *core.Case) { c14History(k, true) })
	c.Require("aka_histories_fresh", "aka_histories_decoded", "refused_setter_calls_in_histories", "values_differing_only_by_trailing_zero_octets_set")
	// TWO packets alive in one session, both taken through the MAC calculation (AT_MAC is a zero placeholder then); the
	// caller completes / scrubs ONE of them through the value slices GetAttr hands out for it (inside their lengths):
	// the OTHER packet still reads back and encodes as before
	c.Family("two-packets-around-mac-calculation", c.N(1500, 200000), func(k *core.Case) {
		mk := func() (*abs.EAP, *eap.EAP) {
			e := &abs.EAP{Code: uint8(k.R.Pick(1, 2)), ID: k.R.Byte(), Method: &abs.Method{Type: abs.MAkaPrime, AKA: akaWithMac(k.R, k.R.Intn(128))}}
			le, err := bridge.BuildEAP(e)
			if err != nil {
				return e, nil
			}
			return e, le
		}
		ex, x := mk()
		ey, y := mk()
		if x == nil || y == nil {
			return
		}
		w := M{"x": ex.Canon(), "y": ey.Canon()}
		key := k.R.Bytes(32)
		k.Eval(1)
		var macX []byte
		var before, after *abs.EAP
		var wireBefore, wireAfter []byte
		var err error
		pn := core.Try(func() {
			order := k.Index % 3
			if order == 0 {
				if _, err = y.CalcEapAkaPrimeAtMAC(key); err != nil {
					return
				}
			}
			if macX, err = x.CalcEapAkaPrimeAtMAC(key); err != nil {
				return
			}
			if order == 1 {
				if _, err = y.CalcEapAkaPrimeAtMAC(key); err != nil {
					return
				}
			}
			before = bridge.ObserveEAP(y)
			if wireBefore, err = y.Marshal(); err != nil {
				return
			}
			ax := x.EapTypeData.(*eap.EapAkaPrime)
			for _, t := range []eap.EapAkaPrimeAttrType{eap.AT_MAC, eap.AT_RAND, eap.AT_AUTN, eap.AT_RES, eap.AT_KDF_INPUT, eap.AT_CHECKCODE} {
				at, gerr := ax.GetAttr(t)
				if gerr != nil {
					continue
				}
				v := at.GetValue()
				if t == eap.AT_MAC && len(v) == 16 && k.Index%2 == 0 {
					copy(v, macX)
				} else {
					for i := range v {
						v[i] ^= 0xA5
					}
				}
			}
			after = bridge.ObserveEAP(y)
			wireAfter, err = y.Marshal()
		})
		if pn != nil || err != nil {
			k.Violate("error", "two-packets: "+fmt.Sprint(pn, err), "error / panic", w)
			return
		}
		if !abs.EqualEAP(before, after) || !bytes.Equal(wireBefore, wireAfter) {
			w["y_before"], w["y_after"] = core.Hex(wireBefore), core.Hex(wireAfter)
			k.Violate("aliasing", "packet-changed-when-another-packets-values-were-written", "after the caller wrote through the value slices of packet X, packet Y reads back / encodes differently", w)
			return
		}
		k.Count("second_packet_unchanged_by_writes_to_the_first", 1)
		k.Distinct("twopk|" + ey.Shape())
	})
	c.Require("second_packet_unchanged_by_writes_to_the_first")
	c.Family("methods", c.N(20000, 3000000), func(k *core.Case) {
		e := gen.EAP(k.R)
		c14One(k, e, "methods")
	})
	c.Family("expanded", c.N(3000, 300000), func(k *core.Case) {
		m := &abs.Method{Type: abs.MExpanded, VendorID: k.R.U32() & 0xffffff, VendorType: k.R.U32(), VendorData: gen.Data(k.R, 0)}
		if k.Index%5 == 0 {
			m.VendorID = uint32(k.R.Pick(0, 1, 10415, 0xffffff, 0x800000))
			m.VendorType = uint32(k.R.Pick(0, 3, 0xffffffff, 0x80000000))
		}
		if k.Index%11 == 0 {
			m.VendorData = gen.DataN(k.R, k.R.Pick(4000, 65000, 65523))
		}
		c14One(k, &abs.EAP{Code: uint8(k.R.Pick(1, 2)), ID: k.R.Byte(), Method: m}, "expanded")
	})
	c.Require("marshal_x50", "held_encodings_rechecked")
}

// ---------------------------------------------------------------------------
// C15

// macOffset finds the AT_MAC value in an encoded EAP-AKA' packet (offset of the 16 value octets).
func macOffset(p []byte) int {
	off := 8
	for off+2 <= len(p) {
		t, l := p[off], int(p[off+1])
		if l == 0 {
			return -1
		}
		if t == abs.ATMac && l == 5 && off+20 <= len(p) {
			return off + 4
		}
		off += 4 * l
	}
	return -1
}

func refMAC(key, wire []byte, off int) []byte {
	z := append([]byte{}, wire...)
	for i := 0; i < 16; i++ {
		z[off+i] = 0
	}
	return ref.HMAC(ref.HSHA256, key, z)[:16]
}

// accept(p, K): Unmarshal(p) succeeds and Calc(K) on the result equals the AT_MAC value carried in p.
func accept(p, key []byte) (ok bool, why string, pn *core.Panic) {
	return acceptAfter(p, key, false)
}

// acceptAfter: with refusedCalls the receiving application first makes setter calls that the setter REFUSES (values
// of a size it does not accept, an attribute kind it does not support) - a refused call must leave the received
// packet as it was, so the code computed afterwards is still the transmitted one.
func acceptAfter(p, key []byte, refusedCalls bool) (ok bool, why string, pn *core.Panic) {
	pn = core.Try(func() {
		le := usedEAP(hashBytes(p) >> 5)
		if err := le.Unmarshal(p); err != nil {
			why = "undecodable"
			return
		}
		a, isAka := le.EapTypeData.(*eap.EapAkaPrime)
		if !isAka || a == nil {
			why = "not aka"
			return
		}
		if len(p)%7 == 1 {
			// the receiver LOOKS at what it received before verifying it (network name in AT_KDF_INPUT, RES, ...):
			// reading attributes must not change the packet
			_ = bridge.ObserveAKA(a)
			core.GlobalCount("receiver_read_all_attributes_before_computing")
		}
		if refusedCalls {
			for _, bad := range []struct {
				t eap.EapAkaPrimeAttrType
				n int
			}{{eap.AT_MAC, 0}, {eap.AT_MAC, 15}, {eap.AT_RAND, 17}, {eap.AT_AUTN, 0}, {eap.AT_KDF, 3}, {eap.AT_RES, 3}, {eap.AT_RES, 17}, {4, 14}} {
				if err := a.SetAttr(bad.t, make([]byte, bad.n)); err == nil {
					why = fmt.Sprintf("SetAttr(%d, %d octets) was not refused", bad.t, bad.n)
					return
				}
			}
		}
		at, err := a.GetAttr(eap.AT_MAC)
		if err != nil {
			why = "no AT_MAC"
			return
		}
		carried := append([]byte{}, at.GetValue()...)
		mac, err := le.CalcEapAkaPrimeAtMAC(key)
		if err != nil {
			why = "calc error"
			return
		}
		if bytes.Equal(mac, carried) {
			ok = true
		} else {
			why = "mac mismatch"
		}
	})
	return
}

func pickKaut(r *core.Rng, idx int) []byte {
	if idx%4 != 0 {
		return r.Bytes(32)
	}
	return r.Bytes(r.Pick(0, 1, 31, 33, 64, 65, 100))
}

func akaWithMac(r *core.Rng, idx int) *abs.AKA {
	mask := (idx % 128) | 8 // always AT_MAC
	return gen.AKAWith(r, uint8(r.Pick(1, 1, 2, 4, 5, 12, 13, int(r.Byte()))), mask)
}

func c15Sender(k *core.Case) {
	noiseFor(k)
	key := pickKaut(k.R, k.Index)
	a := akaWithMac(k.R, k.Index)
	e := &abs.EAP{Code: uint8(k.R.Pick(1, 2)), ID: k.R.Byte(), Method: &abs.Method{Type: abs.MAkaPrime, AKA: a}}
	w := M{"eap": e.Canon(), "k_aut": core.Hex(key)}
	k.Eval(1)
	var mac, wire, mac2 []byte
	var err error
	p := core.Try(func() {
		var le *eap.EAP
		var bufs [][]byte
		le, bufs, err = bridge.BuildEAPKeepingBuffers(e) // holds an arbitrary previous AT_MAC value
		if err != nil {
			return
		}
		if k.Index%2 == 0 {
			defer func() { bufs = nil }()
		}
		if k.Index%7 == 1 {
			_ = bridge.ObserveEAP(le) // the sender reads back what it has set before computing
			k.Count("sender_read_all_attributes_before_computing", 1)
		}
		mac, err = le.CalcEapAkaPrimeAtMAC(key)
		if err != nil {
			return
		}
		ap := le.EapTypeData.(*eap.EapAkaPrime)
		if at, gerr := ap.GetAttr(eap.AT_MAC); k.Index%5 == 2 && gerr == nil && len(at.GetValue()) == 16 {
			// the sender completes the packet IN PLACE: it writes the code into the 16 octets GetAttr hands out for
			// this packet's AT_MAC (inside their length) instead of a second SetAttr. Every later case of this process
			// runs after such a sender.
			copy(at.GetValue(), mac)
			k.Count("sender_filled_AT_MAC_in_place_through_GetAttr", 1)
		} else if err = ap.SetAttr(eap.AT_MAC, mac); err != nil {
			return
		}
		if k.Index%2 == 1 {
			// the caller wipes the buffers it handed to the setters (a RES is a secret) once the code is computed
			for _, b := range bufs {
				for i := range b {
					b[i] ^= 0x5A
				}
			}
			k.Count("callers_setter_buffers_wiped_before_sending", 1)
		}
		wire, err = le.Marshal()
		if err != nil {
			return
		}
		// independent of whatever value AT_MAC held before: compute again on the packet that now holds the real MAC
		mac2, err = le.CalcEapAkaPrimeAtMAC(key)
	})
	if p != nil {
		k.Violate("panic", "calc-mac: "+p.Sig(), "panic", panicData(p, w))
		return
	}
	if err != nil {
		k.Violate("error", "calc-mac-error: "+classifyErr(err), errStr(err), w)
		return
	}
	w["wire"] = core.Hex(wire)
	off := macOffset(wire)
	if off < 0 {
		k.Violate("malformed", "no-AT_MAC-on-wire", "AT_MAC not found in the marshalled packet", w)
		return
	}
	want := refMAC(key, wire, off)
	if !bytes.Equal(mac, want) || len(mac) != 16 {
		k.Violate("mismatch", "sender-mac-differs-from-reference", fmt.Sprintf("library %x, HMAC-SHA-256-128 over the wire octets with AT_MAC zeroed %x", mac, want), w)
		return
	}
	if !bytes.Equal(mac2, mac) {
		k.Violate("mismatch", "mac-depends-on-previous-AT_MAC-value", fmt.Sprintf("%x vs %x", mac2, mac), w)
		return
	}
	if !bytes.Equal(wire[off:off+16], mac) {
		k.Violate("mismatch", "stored-mac-not-on-wire", "SetAttr(AT_MAC) value is not what Marshal emits", w)
		return
	}
	// receiver: decode the transmitted packet, compute with the same key
	ok, why, pn := accept(wire, key)
	if pn != nil {
		k.Violate("panic", "receiver: "+pn.Sig(), "panic", panicData(pn, w))
		return
	}
	if !ok {
		k.Violate("mismatch", "receiver-rejects-genuine/library-built", "receiver does not obtain the transmitted MAC: "+why, w)
		return
	}
	k.Count("sender_receiver_agree", 1)
	k.Distinct(fmt.Sprintf("sender|k%d|%s", len(key), e.Shape()))
	if k.WantSample() {
		w["mac"] = core.Hex(mac)
		k.Sample(w)
	}
}

func permute(r *core.Rng, a []abs.AKAAttr, idx int) {
	// deterministic enumeration of permutations for small lists (Heap-less: factorial number system)
	n := len(a)
	if n <= 5 {
		f := 1
		for i := 2; i <= n; i++ {
			f *= i
		}
		code := idx % f
		for i := n; i > 1; i-- {
			j := code % i
			code /= i
			a[i-1], a[j] = a[j], a[i-1]
		}
		return
	}
	for x := n - 1; x > 0; x-- {
		y := r.Intn(x + 1)
		a[x], a[y] = a[y], a[x]
	}
}

// reference-built packets: any attribute order, non-zero reserved / padding octets
func c15Reference(k *core.Case) {
	noiseFor(k)
	key := pickKaut(k.R, k.Index/3)
	a := akaWithMac(k.R, k.R.Intn(128))
	permute(k.R, a.Attrs, k.Index)
	extra := 0
	if k.Index%4 == 1 {
		// attributes of other types, as an independent sender may include (AT_PADDING, AT_IV, AT_ENCR_DATA, AT_NEXT_PSEUDONYM, ...):
		// distinct types, bodies up to the 8-bit word count, so that packets of several kilobytes occur
		used := map[uint8]bool{}
		for _, t := range []uint8{6, 129, 130, 132, 133, 135, 4, 12, 14, 22, 200, 255, 7, 10, 13} {
			if !k.R.Chance(2, 3) || used[t] {
				continue
			}
			used[t] = true
			n := 4 * k.R.Pick(0, 1, 2, 5, 60, 200, 254, 254)
			pos := k.R.Intn(len(a.Attrs) + 1)
			a.Attrs = append(a.Attrs[:pos], append([]abs.AKAAttr{{Type: t, Value: k.R.Bytes(n)}}, a.Attrs[pos:]...)...)
			extra++
		}
		if len(a.Attrs) > 0 && k.R.Bool() { // a long network name
			for i := range a.Attrs {
				if a.Attrs[i].Type == abs.ATKdfInput {
					a.Attrs[i].Value = k.R.Bytes(k.R.Range(300, 1016))
				}
			}
		}
	}
	e := &abs.EAP{Code: uint8(k.R.Pick(1, 2)), ID: k.R.Byte(), Method: &abs.Method{Type: abs.MAkaPrime, AKA: a}}
	o := &ref.Opts{AKAOrder: true}
	noise := k.Index%3 == 0
	if noise {
		o.AKANoise = k.R.Byte
	}
	wire, err := ref.EncodeEAP(e, o)
	if err != nil {
		return
	}
	off := macOffset(wire)
	if off < 0 {
		return
	}
	copy(wire[off:], refMAC(key, wire, off))
	var order []int
	for _, at := range a.Attrs {
		order = append(order, int(at.Type))
	}
	w := M{"eap": e.Canon(), "k_aut": core.Hex(key), "wire": core.HexClip(wire, 3000), "wire_len": len(wire), "attribute_order": order, "nonzero_reserved_and_padding": noise, "other_attribute_types": extra}
	k.Eval(1)
	refused := k.Index%5 == 2
	ok, why, pn := acceptAfter(wire, key, refused)
	if pn != nil {
		k.Violate("panic", "receiver: "+pn.Sig(), "panic", panicData(pn, w))
		return
	}
	if refused {
		k.Count("receiver_made_refused_setter_calls_first", 1)
		w["refused_setter_calls_before_computing"] = true
	}
	if !ok {
		cls := "ascending-order"
		if refused {
			cls = "after-refused-setter-calls/" + cls
		}
		for i := 1; i < len(order); i++ {
			if order[i] < order[i-1] {
				cls = "non-ascending-order"
			}
		}
		if noise {
			cls += "+nonzero-reserved/padding"
		}
		k.Violate("mismatch", "receiver-rejects-genuine/reference-built/"+cls, "receiver does not obtain the MAC transmitted by an independent sender: "+why, w)
		return
	}
	k.Count("reference_packets_accepted", 1)
	if len(wire) > 4096 {
		k.Count("reference_packets_over_4k", 1)
	}
	// the received values themselves must be intact too
	for i := range a.Attrs {
		if a.Attrs[i].Type == abs.ATMac {
			a.Attrs[i].Value = append(abs.HB{}, wire[off:off+16]...) // the packet carries the computed MAC
		}
	}
	if d, derr, _ := libEAPUnmarshal(wire); derr != nil || !abs.EqualEAP(e, d) {
		k.Violate("mismatch", "reference-packet-decodes-differently", fmt.Sprint(derr), w)
		return
	}
	k.Distinct(fmt.Sprintf("ref|%v|%v|%s", order, noise, sizeBucket(len(wire))))
	if k.WantSample() && k.Index%2 == 1 {
		k.Sample(w)
	}
}

// sensitivity: every single-bit flip of the packet or of the key must turn acceptance off
func c15Flips(k *core.Case) {
	key := k.R.Bytes(32)
	a := akaWithMac(k.R, k.R.Intn(128))
	if k.Index%2 == 1 {
		permute(k.R, a.Attrs, k.R.Intn(120))
	}
	e := &abs.EAP{Code: uint8(k.R.Pick(1, 2)), ID: k.R.Byte(), Method: &abs.Method{Type: abs.MAkaPrime, AKA: a}}
	o := &ref.Opts{AKAOrder: true}
	if k.Index%3 == 0 {
		o.AKANoise = k.R.Byte
	}
	wire, err := ref.EncodeEAP(e, o)
	if err != nil || len(wire) > 400 {
		return
	}
	off := macOffset(wire)
	if off < 0 {
		return
	}
	copy(wire[off:], refMAC(key, wire, off))
	w := M{"eap": e.Canon(), "k_aut": core.Hex(key), "wire": core.Hex(wire)}
	k.Eval(1)
	if ok, why, pn := accept(wire, key); !ok || pn != nil {
		k.Violate("mismatch", "receiver-rejects-genuine/flip-base", fmt.Sprint(why, pn), w)
		return
	}
	for i := 0; i < len(wire)*8; i++ {
		pp := append([]byte{}, wire...)
		pp[i/8] ^= 1 << uint(i%8)
		k.Eval(1)
		ok, _, pn := accept(pp, key)
		if pn != nil {
			w["flipped"] = core.Hex(pp)
			k.Violate("panic", "receiver-flip: "+pn.Sig(), "panic on a modified packet", panicData(pn, w))
			return
		}
		if ok {
			w["flipped"] = core.Hex(pp)
			w["bit"] = i
			k.Violate("accepted", "modified-packet-accepted/"+flipRegion(wire, i/8), fmt.Sprintf("flipping bit %d (octet %d) leaves the recomputed MAC equal to the carried one", i, i/8), w)
			return
		}
		k.Count("flip_region_"+flipRegion(wire, i/8), 1)
	}
	for i := 0; i < len(key)*8; i++ {
		kk := append([]byte{}, key...)
		kk[i/8] ^= 1 << uint(i%8)
		k.Eval(1)
		if ok, _, _ := accept(wire, kk); ok {
			w["bit"] = i
			k.Violate("accepted", "modified-key-accepted", "a different key gives the same MAC", w)
			return
		}
	}
	k.Count("exhaustive_flip_packets", 1)
	k.Distinct("flips|" + e.Shape())
}

func flipRegion(p []byte, i int) string {
	switch {
	case i < 4:
		return "eap-header"
	case i < 8:
		return "aka-header"
	}
	off := 8
	for off+2 <= len(p) {
		l := int(p[off+1])
		if l == 0 {
			break
		}
		if i < off+4*l {
			switch {
			case i == off:
				return "attr-type"
			case i == off+1:
				return "attr-length"
			case i < off+4 && p[off] != abs.ATKdf:
				return "attr-reserved-or-bitlen"
			}
			if p[off] == abs.ATMac {
				return "mac-value"
			}
			if (p[off] == abs.ATRes || p[off] == abs.ATKdfInput) && off+4 <= len(p) {
				bits := int(p[off+2])<<8 | int(p[off+3])
				if i >= off+4+bits/8 {
					return "attr-padding"
				}
			}
			return "attr-value"
		}
		off += 4 * l
	}
	return "tail"
}

func c15(c *core.Ctx) {
	c.Info("rule", "sender case = API-built EAP-AKA' packet (any subset containing AT_MAC, arbitrary previous MAC value), K_aut of 32 octets or {0,1,31,33,64,65,100}: CalcEapAkaPrimeAtMAC == hand-built HMAC-SHA-256(K, Marshal output with the MAC value zeroed)[:16], recomputation independent of the stored MAC, receiver (Unmarshal + Calc) obtains the carried MAC; "+
		"reference case = packet from the independent encoder in every attribute order (all permutations up to 5 attributes, sampled beyond) with and without non-zero reserved/padding octets, MAC by the reference, must be accepted; "+
		"flip case = EVERY single-bit flip of packet and key must turn acceptance off (accept := decodes and Calc == carried AT_MAC); distinct = shape / order / noise")
	c.Info("assumptions", "attribute types outside the seven settable ones are not generated || HMAC collisions do not occur")
	c.Family("sender", c.N(60000, 20000000), c15Sender)
	c.Family("reference-orders", c.N(40000, 10000000), c15Reference)
	c.Family("bit-flips", c.N(200, 40000), c15Flips)
	// a RECEIVED packet is completed through the API with two to four attribute kinds it did not carry (AT_MAC among
	// them), the code is computed, set, and the packet sent: the transmitted code must be the HMAC over exactly the
	// transmitted octets; repeated, because the order of attributes added later is where implementations wobble
	c.Family("amend-decoded-then-mac", c.N(3000, 300000), func(k *core.Case) {
		noiseFor(k)
		key := k.R.Bytes(32)
		all := []uint8{abs.ATRand, abs.ATAutn, abs.ATRes, abs.ATKdfInput, abs.ATKdf, abs.ATCheckcode}
		mask := k.R.Intn(64)
		recv := &abs.AKA{Subtype: uint8(k.R.Pick(1, 2, 5))}
		var later []uint8
		for bi, t := range all {
			if mask>>uint(bi)&1 == 1 {
				recv.Attrs = append(recv.Attrs, gen.AKAWith(k.R, 1, 1<<uint([]int{0, 1, 2, 4, 5, 6}[bi])).Attrs...)
			} else {
				later = append(later, t)
			}
		}
		for x := len(recv.Attrs) - 1; x > 0; x-- { // any order on the wire
			y := k.R.Intn(x + 1)
			recv.Attrs[x], recv.Attrs[y] = recv.Attrs[y], recv.Attrs[x]
		}
		wire0, err := ref.EncodeEAP(&abs.EAP{Code: 1, ID: k.R.Byte(), Method: &abs.Method{Type: abs.MAkaPrime, AKA: recv}}, &ref.Opts{AKAOrder: true})
		if err != nil {
			return
		}
		nAdd := minI(len(later), k.R.Pick(1, 2, 3))
		for rep := 0; rep < 4; rep++ {
			k.Eval(1)
			le := new(eap.EAP)
			if err := le.Unmarshal(append([]byte{}, wire0...)); err != nil {
				return
			}
			ap := le.EapTypeData.(*eap.EapAkaPrime)
			var bad string
			var wire, mac []byte
			pn := core.Try(func() {
				for _, t := range later[:nAdd] {
					v := gen.AKAWith(core.NewRng(uint64(k.Index), uint64(t)), 1, 1<<uint(map[uint8]int{abs.ATRand: 0, abs.ATAutn: 1, abs.ATRes: 2, abs.ATKdfInput: 4, abs.ATKdf: 5, abs.ATCheckcode: 6}[t])).Attrs[0].Value
					if v == nil {
						v = abs.HB{}
					}
					if err := ap.SetAttr(eap.EapAkaPrimeAttrType(t), v); err != nil {
						bad = "SetAttr: " + err.Error()
						return
					}
				}
				if err := ap.SetAttr(eap.AT_MAC, make([]byte, 16)); err != nil {
					bad = "SetAttr(AT_MAC): " + err.Error()
					return
				}
				var err error
				if mac, err = le.CalcEapAkaPrimeAtMAC(key); err != nil {
					bad = "calc: " + err.Error()
					return
				}
				if err = ap.SetAttr(eap.AT_MAC, mac); err != nil {
					bad = err.Error()
					return
				}
				wire, err = le.Marshal()
				if err != nil {
					bad = "marshal: " + err.Error()
				}
			})
			w := M{"received": core.Hex(wire0), "added_attribute_kinds": later[:nAdd], "k_aut": core.Hex(key), "sent": core.HexClip(wire, 2048), "repetition": rep}
			if pn != nil {
				k.Violate("panic", "amend-then-mac: "+pn.Sig(), "panic", panicData(pn, w))
				return
			}
			if bad != "" {
				k.Violate("error", "amend-then-mac-error: "+classifyErr(fmt.Errorf("%s", bad)), bad, w)
				return
			}
			off := macOffset(wire)
			if off < 0 || !bytes.Equal(mac, refMAC(key, wire, off)) {
				k.Violate("mismatch", "sender-mac-differs-from-reference/received-packet-completed-through-the-API", fmt.Sprintf("transmitted code %x is not the HMAC over the transmitted octets", mac), w)
				return
			}
			if ok, why, _ := accept(wire, key); !ok {
				k.Violate("mismatch", "receiver-rejects-genuine/received-packet-completed-through-the-API", why, w)
				return
			}
		}
		k.Count("received_packets_completed_then_authenticated", 1)
		k.Distinct(fmt.Sprintf("amendmac|%d|%d", mask, nAdd))
	})
	// two different packets (same key) that agree in a weak fingerprint: AT_RAND of the second is solved for
	c.Family("colliding-packets", c.N(len(core.Fingerprints)*6, len(core.Fingerprints)*300), func(k *core.Case) {
		fp := core.Fingerprints[k.Index%len(core.Fingerprints)]
		key := k.R.Bytes(32)
		a := gen.AKAWith(k.R, 1, 127)
		e := &abs.EAP{Code: 1, ID: k.R.Byte(), Method: &abs.Method{Type: abs.MAkaPrime, AKA: a}}
		w1, err := ref.EncodeEAP(e, nil)
		if err != nil {
			return
		}
		w2 := append([]byte{}, w1...)
		// AT_RAND is the first attribute: value at offset 8+4 .. 8+20
		w2[1] ^= 0x10 // another identifier
		if w2[8] != abs.ATRand || !core.PatchToCollide(w2, 12+k.R.Intn(16-fp.Bytes+1), fp, fp.F(w1)) || bytes.Equal(w1, w2) {
			return
		}
		for round, wv := range [][]byte{w1, w2, w1} {
			off := macOffset(wv)
			if off < 0 {
				return
			}
			k.Eval(1)
			le := new(eap.EAP)
			if err := le.Unmarshal(append([]byte{}, wv...)); err != nil {
				return
			}
			mac, err := le.CalcEapAkaPrimeAtMAC(key)
			if err != nil || !bytes.Equal(mac, refMAC(key, wv, off)) {
				k.Violate("mismatch", "mac-wrong-for-a-packet-that-collides-with-an-earlier-one/"+fp.Name, fmt.Sprintf("packet %d: err=%v", round+1, err), M{"packet1": core.Hex(w1), "packet2": core.Hex(w2), "k_aut": core.Hex(key)})
				return
			}
		}
		k.Count("colliding_packet_pairs", 1)
	})
	// several sessions at once, each goroutine with its OWN packet object and key (nothing shared by the caller):
	// every code computed must be the one the reference gives for that session's packet; the race-detector build
	// of this family additionally reports hidden shared state inside the library
	c.Family("parallel-sessions", c.N(24, 2000), func(k *core.Case) {
		const G = 8
		type sess struct {
			le   *eap.EAP
			key  []byte
			want []byte
			wire []byte
		}
		var ss []*sess
		for g := 0; g < G; g++ {
			a := akaWithMac(k.R, k.R.Intn(128))
			e := &abs.EAP{Code: uint8(k.R.Pick(1, 2)), ID: k.R.Byte(), Method: &abs.Method{Type: abs.MAkaPrime, AKA: a}}
			le, err := bridge.BuildEAP(e)
			if err != nil {
				continue
			}
			key := k.R.Bytes(32)
			wire, err := le.Marshal()
			if err != nil {
				continue
			}
			off := macOffset(wire)
			if off < 0 {
				continue
			}
			zeroed := append([]byte{}, wire...) // CalcEapAkaPrimeAtMAC leaves the object's AT_MAC value zeroed
			for i := 0; i < 16; i++ {
				zeroed[off+i] = 0
			}
			ss = append(ss, &sess{le: le, key: key, want: refMAC(key, wire, off), wire: zeroed})
		}
		iters := 150
		bad := make([]string, len(ss))
		var wg sync.WaitGroup
		for g, s := range ss {
			wg.Add(1)
			go func(g int, s *sess) {
				defer wg.Done()
				p := core.Try(func() {
					for i := 0; i < iters && bad[g] == ""; i++ {
						mac, err := s.le.CalcEapAkaPrimeAtMAC(s.key)
						if err != nil || !bytes.Equal(mac, s.want) {
							bad[g] = fmt.Sprintf("iteration %d: library %x, reference %x, err=%v", i, mac, s.want, err)
						}
						if b, err := s.le.Marshal(); err != nil || !bytes.Equal(b, s.wire) {
							bad[g] = fmt.Sprintf("iteration %d: Marshal of the session's own packet (AT_MAC zeroed by the computation) differs from its sequential encoding", i)
						}
					}
				})
				if p != nil {
					bad[g] = "panic: " + p.Value
				}
			}(g, s)
		}
		wg.Wait()
		k.Eval(len(ss) * iters)
		for g, b := range bad {
			if b != "" {
				k.Violate("mismatch", "mac-wrong-when-sessions-run-in-parallel", b, M{"session": g, "k_aut": core.Hex(ss[g].key), "wire": core.Hex(ss[g].wire)})
				return
			}
		}
		k.Count("parallel_sessions_agree", 1)
		k.Distinct(fmt.Sprintf("parallel|%d", len(ss)))
	})
	c.Require("callers_setter_buffers_wiped_before_sending", "received_packets_completed_then_authenticated", "colliding_packet_pairs", "receiver_read_all_attributes_before_computing", "sender_read_all_attributes_before_computing", "receiver_made_refused_setter_calls_first", "parallel_sessions_agree", "sender_receiver_agree", "reference_packets_accepted", "reference_packets_over_4k", "exhaustive_flip_packets", "flip_region_attr-padding", "flip_region_attr-reserved-or-bitlen",
		"flip_region_mac-value", "flip_region_eap-header", "flip_region_aka-header", "flip_region_attr-type", "flip_region_attr-length", "flip_region_attr-value")
}
