package props

import (
	"bytes"
	"fmt"
	"reflect"
	"runtime/debug"
	"syscall"

	ike "github.com/free5gc/ike"
	"github.com/free5gc/ike/eap"
	"github.com/free5gc/ike/message"
	"github.com/free5gc/ike/security"

	"verifharness/abs"
	"verifharness/bridge"
	"verifharness/core"
	"verifharness/gen"
	"verifharness/libsa"
	"verifharness/mon"
	"verifharness/ref"
)

func init() { core.Register("C20", c20) }

// walkBytes visits every []byte reachable from v (exported or not), except
// IKEHeader.PayloadBytes (the documented aliasing exception).
func walkBytes(v reflect.Value, visit func(path string, b []byte), path string, depth int) {
	if depth > 12 {
		return
	}
	switch v.Kind() {
	case reflect.Ptr, reflect.Interface:
		if !v.IsNil() {
			walkBytes(v.Elem(), visit, path, depth+1)
		}
	case reflect.Struct:
		for i := 0; i < v.NumField(); i++ {
			f := v.Type().Field(i)
			if v.Type().Name() == "IKEHeader" && f.Name == "PayloadBytes" {
				continue
			}
			walkBytes(v.Field(i), visit, path+"."+f.Name, depth+1)
		}
	case reflect.Slice:
		if v.Type().Elem().Kind() == reflect.Uint8 {
			if v.Len() > 0 {
				visit(path, v.Bytes())
			}
			return
		}
		for i := 0; i < v.Len(); i++ {
			walkBytes(v.Index(i), visit, fmt.Sprintf("%s[%d]", path, i), depth+1)
		}
	case reflect.Map:
		it := v.MapRange()
		for it.Next() {
			walkBytes(it.Value(), visit, path+"[k]", depth+1)
		}
	}
}

func scribble(b []byte) {
	for i := range b {
		b[i] = ^b[i]
	}
}

// c20Decoded: the decoded value owns its data.
func c20Decoded(k *core.Case, wire []byte, tail []byte, src string, dec func(b []byte) (*message.IKEMessage, error)) {
	for pl := 0; pl < mon.NPlacements; pl++ {
		buf := mon.Place(wire, pl, tail)
		full := buf[:cap(buf)]
		k.Eval(1)
		var lm *message.IKEMessage
		var err error
		pn := core.Try(func() { lm, err = dec(buf) })
		w := M{"input": core.HexClip(wire, 4096), "placement": pl, "source": src}
		if pn != nil {
			k.Violate("panic", "decode: "+pn.Sig(), "panic", panicData(pn, w))
			return
		}
		if err != nil {
			return
		}
		before := bridge.ObserveMsg(lm).JSON()
		// (1) overwrite the whole receive buffer incl. spare capacity
		snapshot := append([]byte{}, full...)
		scribble(full)
		after := bridge.ObserveMsg(lm).JSON()
		if before != after {
			k.Violate("aliasing", "decoded-value-shares-memory-with-input: "+firstJSONDiffKind(before, after), "overwriting the receive buffer changed the decoded message", w)
			return
		}
		copy(full, snapshot)
		// (2) flip every byte slice reachable from the value: the buffer must not change
		var where string
		walkBytes(reflect.ValueOf(lm), func(path string, b []byte) {
			scribble(b)
			if where == "" && !bytes.Equal(full, snapshot) {
				where = path
			}
			scribble(b)
		}, "msg", 0)
		if where != "" {
			k.Violate("aliasing", "decoded-field-aliases-input/"+stripIdx(where), "writing to "+where+" of the decoded message changed the receive buffer", w)
			return
		}
		// (3) re-encoding after the buffer is gone still works and is unchanged by it
		if pl == 0 {
			k.Distinct(src + "|" + bridge.ObserveMsg(lm).Shape())
		}
	}
	k.Count("decoded_and_scribbled_"+src, 1)
	if k.WantSample() && len(wire) < 200 {
		k.Sample(M{"check": "decode, overwrite the receive buffer (4 placements), re-observe; flip every reachable []byte, buffer unchanged", "source": src, "input": core.Hex(wire)})
	}
}

func stripIdx(s string) string {
	out := make([]byte, 0, len(s))
	skip := false
	for i := 0; i < len(s); i++ {
		switch {
		case s[i] == '[':
			skip = true
			out = append(out, '[', ']')
		case s[i] == ']':
			skip = false
		case !skip:
			out = append(out, s[i])
		}
	}
	return string(out)
}

func firstJSONDiffKind(a, b string) string {
	i := 0
	for i < len(a) && i < len(b) && a[i] == b[i] {
		i++
	}
	// find the last "Kind":NN before i
	j := bytes.LastIndex([]byte(a[:i]), []byte(`"Kind":`))
	if j < 0 {
		return "header"
	}
	end := j + 7
	for end < len(a) && a[end] >= '0' && a[end] <= '9' {
		end++
	}
	return "payload-kind-" + a[j+7:end]
}

// c20Encode: purity and determinism of plain encoding.
func c20Encode(k *core.Case, m *abs.Msg) {
	k.Eval(1)
	lm, err := buildMsgObject(m) // an object with a history (decoded before, header parsed elsewhere, encoded before, ...)
	if err != nil {
		return
	}
	w := M{"msg": msgJSON(m)}
	before := bridge.ObserveMsg(lm).JSON()
	var e1, e2, e3 []byte
	var err1, err2, err3 error
	pn := core.Try(func() {
		e1, err1 = lm.Encode()
		e2, err2 = lm.Encode()
	})
	if pn != nil {
		k.Violate("panic", "encode: "+pn.Sig(), "panic", panicData(pn, w))
		return
	}
	if err1 != nil {
		return
	}
	if bridge.ObserveMsg(lm).JSON() != before {
		k.Violate("impure", "encode-alters-message", "Encode changed a payload or header field of the message", w)
		return
	}
	if err2 != nil || !bytes.Equal(e1, e2) {
		k.Violate("nondeterministic", "repeated-encode-differs", "", w)
		return
	}
	keep := append([]byte{}, e1...)
	scribble(e1) // the returned buffer is the caller's
	if bridge.ObserveMsg(lm).JSON() != before {
		k.Violate("aliasing", "returned-buffer-referenced-by-message", "overwriting the returned buffer changed the message", w)
		return
	}
	e3, err3 = lm.Encode()
	if err3 != nil || !bytes.Equal(e3, keep) {
		k.Violate("aliasing", "returned-buffer-influences-next-encode", "after overwriting the first result, the next Encode differs", w)
		return
	}
	if !bytes.Equal(e2, keep) {
		k.Violate("aliasing", "two-encode-results-share-memory", "overwriting the first result changed the second", w)
		return
	}
	// the LATEST result is the caller's too (send buffer recycled): the kept message - its header's own Marshal, which
	// re-emits the header with the payload octets recorded at the last encoding, and those recorded octets - does not
	// change when that buffer is overwritten
	var hm1, hm2 []byte
	var hmErr1, hmErr2 error
	pbBefore := append([]byte{}, lm.IKEHeader.PayloadBytes...)
	if pn := core.Try(func() { hm1, hmErr1 = lm.IKEHeader.Marshal() }); pn == nil && hmErr1 == nil {
		hmOrig := hm1
		hm1 = append([]byte{}, hm1...)
		scribble(e3)
		scribble(e2)
		scribble(hmOrig) // ... and so is what the header's own Marshal returned
		core.Try(func() { hm2, hmErr2 = lm.IKEHeader.Marshal() })
		if hmErr2 != nil || !bytes.Equal(hm1, hm2) || !bytes.Equal(pbBefore, lm.IKEHeader.PayloadBytes) {
			k.Violate("aliasing", "latest-returned-buffer-referenced-by-header", "overwriting the buffer returned by the LAST Encode changed what the kept header re-emits / records", w)
			return
		}
		k.Count("header_remarshalled_after_latest_result_overwritten", 1)
	}
	// an equal message built separately encodes identically (function of the value)
	lm2, _ := bridge.BuildMsg(m)
	if e4, err4 := lm2.Encode(); err4 != nil || !bytes.Equal(e4, keep) {
		k.Violate("nondeterministic", "equal-messages-encode-differently", "", w)
		return
	}
	k.Count("encode_pure", 1)
	k.Distinct("enc|" + m.Shape())
}

// c20Protect: EncodeEncrypt alters nothing but the payload list and header bookkeeping.
func c20Protect(k *core.Case, m *abs.Msg, s ref.Suite) {
	raw := libsa.RandomRaw(k.R, s)
	key, err := libsa.NewKey(raw)
	if err != nil {
		return
	}
	lm, err := bridge.BuildMsg(m)
	if err != nil {
		return
	}
	orig := append(message.IKEPayloadContainer{}, lm.Payloads...) // the caller's payload objects
	callerSlice := lm.Payloads                                    // the very slice (same backing array) the caller handed over and may still hold
	origObs := bridge.ObservePayloads(orig)
	hdrBefore := *lm.IKEHeader
	init := k.R.Bool()
	w := M{"msg": msgJSON(m), "suite": s.Name()}
	k.Eval(1)
	var wire []byte
	pn := core.Try(func() { wire, err = ike.EncodeEncrypt(lm, key, role(init)) })
	if pn != nil {
		k.Violate("panic", "protect: "+pn.Sig(), "panic", panicData(pn, w))
		return
	}
	if err != nil {
		return
	}
	for i := range callerSlice {
		if callerSlice[i] != orig[i] {
			k.Violate("impure", "protect-overwrites-callers-payload-slice", fmt.Sprintf("element %d of the payload slice the caller still holds was replaced by a %T", i, callerSlice[i]), w)
			return
		}
	}
	if !abs.EqualPayloads(origObs, bridge.ObservePayloads(orig)) {
		k.Violate("impure", "protect-alters-callers-payloads", "the caller's original payload objects changed during protection", w)
		return
	}
	h := lm.IKEHeader
	if h.InitiatorSPI != hdrBefore.InitiatorSPI || h.ResponderSPI != hdrBefore.ResponderSPI || h.MajorVersion != hdrBefore.MajorVersion || h.MinorVersion != hdrBefore.MinorVersion ||
		h.ExchangeType != hdrBefore.ExchangeType || h.Flags != hdrBefore.Flags || h.MessageID != hdrBefore.MessageID {
		k.Violate("impure", "protect-alters-header-fields", "", w)
		return
	}
	if len(lm.Payloads) != 1 || lm.Payloads[0].Type() != message.TypeSK {
		k.Violate("impure", "protect-payload-list-not-single-SK", fmt.Sprintf("%d payloads after protection", len(lm.Payloads)), w)
		return
	}
	// the key object still works and the wire is the caller's
	keep := append([]byte{}, wire...)
	skBefore := bridge.ObservePayloads(lm.Payloads)
	scribble(wire)
	// the returned datagram is the caller's: writing to it (send buffer reuse) must not reach into the message
	if !abs.EqualPayloads(skBefore, bridge.ObservePayloads(lm.Payloads)) {
		k.Violate("aliasing", "protected-message-references-the-returned-datagram", "overwriting the datagram returned by EncodeEncrypt changed the message's Encrypted payload", w)
		return
	}
	var again []byte
	pn = core.Try(func() { again, err = lm.Encode() })
	if pn != nil {
		k.Violate("panic", "encode-after-protect: "+pn.Sig(), "panic", panicData(pn, w))
		return
	}
	if err != nil || !bytes.Equal(again, keep) {
		k.Violate("aliasing", "retransmission-encoding-differs-after-the-returned-datagram-was-overwritten", fmt.Sprintf("Encode of the protected message: err=%v, equal to what was sent=%v", err, bytes.Equal(again, keep)), w)
		return
	}
	// and the other way round: wiping the message's Encrypted payload must not change a datagram handed out earlier
	wire2 := append([]byte{}, again...)
	if sk, ok := lm.Payloads[0].(*message.Encrypted); ok {
		scribble(sk.EncryptedData)
		if !bytes.Equal(again, wire2) {
			k.Violate("aliasing", "encoded-datagram-references-the-message", "overwriting the Encrypted payload changed a datagram returned earlier", w)
			return
		}
	}
	k.Count("returned_datagram_overwritten_then_reencoded", 1)
	kr, _ := libsa.NewKey(raw)
	if d, derr, dp := libUnprotect(keep, false, kr, !init); derr != nil || dp != nil || !abs.Equal(m, d) {
		k.Violate("mismatch", "protected-output-not-accepted", fmt.Sprint(derr, dp), w)
		return
	}
	// the protected datagram decoded WITHOUT keys (a proxy, a logger, a receiver that has not found the SA yet): the
	// Encrypted payload it holds owns its data too
	c20Decoded(k, keep, nil, "protected-but-not-unprotected", func(b []byte) (*message.IKEMessage, error) {
		lm := new(message.IKEMessage)
		err := lm.Decode(b)
		return lm, err
	})
	// unprotected value owns its data
	c20Decoded(k, keep, nil, "unprotected", func(b []byte) (*message.IKEMessage, error) {
		k2, _ := libsa.NewKey(raw)
		return ike.DecodeDecrypt(b, nil, k2, role(!init))
	})
	k.Count("protect_pure", 1)
	k.Distinct("prot|" + s.Name() + "|" + abs.Kinds(m))
}

// ---------------------------------------------------------------------------
// poisoned receive buffer: the input lives in an anonymous mmap which is made
// inaccessible after the decode; any later touch of input memory faults.

func c20Poisoned(k *core.Case, wire []byte, src string, dec func(b []byte) (*message.IKEMessage, error)) {
	page := syscall.Getpagesize()
	n := (len(wire) + page) / page * page
	mem, err := syscall.Mmap(-1, 0, n, syscall.PROT_READ|syscall.PROT_WRITE, syscall.MAP_ANON|syscall.MAP_PRIVATE)
	if err != nil {
		k.Count("mmap_failed", 1)
		return
	}
	defer syscall.Munmap(mem)
	// place the input at the END of the mapping so that an over-read faults too (next page is unmapped or foreign)
	buf := mem[n-len(wire) : n : n]
	copy(buf, wire)
	k.Eval(1)
	lm, derr := dec(buf)
	if derr != nil {
		return
	}
	if err := syscall.Mprotect(mem, syscall.PROT_NONE); err != nil {
		k.Count("mprotect_failed", 1)
		return
	}
	old := debug.SetPanicOnFault(true)
	var obs string
	var re []byte
	var rerr error
	pn := core.Try(func() {
		hdr := lm.IKEHeader
		pb := hdr.PayloadBytes
		hdr.PayloadBytes = nil // the documented alias is not followed
		obs = bridge.ObserveMsg(lm).JSON()
		re, rerr = lm.Encode()
		_ = pb
	})
	debug.SetPanicOnFault(old)
	syscall.Mprotect(mem, syscall.PROT_READ|syscall.PROT_WRITE)
	if pn != nil {
		k.Violate("aliasing", "use-of-input-memory-after-decode/"+src, "traversing / re-encoding the decoded message touched the (now inaccessible) receive buffer: "+pn.Value,
			panicData(pn, M{"input": core.HexClip(wire, 4096), "source": src}))
		return
	}
	_ = obs
	_ = re
	_ = rerr
	k.Count("poisoned_buffer_cases", 1)
	k.Distinct("poison|" + src + "|" + bridge.ObserveMsg(lm).Shape())
}

func c20(c *core.Ctx) {
	c.Info("rule", "decode case = (accepted byte string: library/reference encodings of domain messages, mutated encodings, protected messages) x 4 memory placements: observe, overwrite the whole receive buffer incl. spare capacity, observe again (equal); flip every []byte reachable by reflection from the decoded value (buffer unchanged); "+
		"encode case = domain message: abs(m) unchanged, 3 encodings byte-identical, overwriting a returned buffer changes neither the message nor later encodings, equal messages encode identically; protect case: only the payload list (single SK) and header bookkeeping change, caller's payload objects unchanged; "+
		"poisoned-buffer case (thorough, plain build): input in an mmap made PROT_NONE after decode, traversal + re-encode must not fault; distinct = (source, structural shape)")
	c.Info("assumptions", "IKEHeader.PayloadBytes is the documented aliasing exception and is neither observed nor followed || aliasing is detected when a later read/write reaches it; zero-length fields sharing capacity are invisible")
	plainDec := func(b []byte) (*message.IKEMessage, error) {
		m := new(message.IKEMessage)
		return m, m.Decode(b)
	}
	c.Family("decode-own", c.N(6000, 1000000), func(k *core.Case) {
		m := gen.Msg(k.R, gen.Opt{AllowBig: k.Index%29 == 0, AllowEmpty: true})
		wire, err, pn := libEncode(m)
		if err != nil || pn != nil {
			return
		}
		c20Decoded(k, wire, nil, "own-encoding", plainDec)
	})
	c.Family("decode-single", c.N(3000, 300000), func(k *core.Case) {
		m := gen.Header(k.R)
		kinds := gen.AllKinds()
		m.Payloads = []abs.Payload{gen.Payload(k.R, kinds[k.Index%len(kinds)])}
		wire, err := ref.EncodeMsg(m, &ref.Opts{Noise: k.R.Byte, AKANoise: k.R.Byte, AKAOrder: true})
		if err != nil {
			return
		}
		c20Decoded(k, wire, nil, "single-"+abs.KindName[m.Payloads[0].Kind], plainDec)
	})
	c.Family("decode-mutated", c.N(6000, 1000000), func(k *core.Case) {
		m := gen.Msg(k.R, gen.Opt{AllowEmpty: true, MaxPayloads: 4})
		wire, err := ref.EncodeMsg(m, &ref.Opts{Noise: k.R.Byte})
		if err != nil || len(wire) > 8000 {
			return
		}
		mu := mutate(k.R, wire)
		fixLen(mu)
		c20Decoded(k, mu, k.R.Bytes(32), "mutated", plainDec)
	})
	c.Family("encode", c.N(6000, 1000000), func(k *core.Case) {
		m := gen.Msg(k.R, gen.Opt{AllowBig: k.Index%31 == 0, AllowEmpty: true})
		if k.Index%6 == 4 {
			// the application recycles the EAP payload object of the method exchange for the final Success / Failure: only
			// the code (and identifier) change, the method data stay attached
			for i := range m.Payloads {
				if e := m.Payloads[i].EAP; m.Payloads[i].Kind == abs.PEAP && e != nil && e.Method != nil {
					e.Code = uint8(k.R.Pick(3, 4))
					k.Count("eap_payload_objects_recycled_for_success_or_failure", 1)
				}
			}
		}
		c20Encode(k, m)
	})
	// determinism on a message that was decoded and then amended through the API (EAP-AKA' attributes added after reception)
	c.Family("encode-amended-decoded", c.N(3000, 300000), func(k *core.Case) {
		a := gen.AKAWith(k.R, 1, k.R.Intn(16))
		for x := len(a.Attrs) - 1; x > 0; x-- {
			y := k.R.Intn(x + 1)
			a.Attrs[x], a.Attrs[y] = a.Attrs[y], a.Attrs[x]
		}
		m := gen.Header(k.R)
		m.Payloads = []abs.Payload{{Kind: abs.PEAP, EAP: &abs.EAP{Code: 1, ID: k.R.Byte(), Method: &abs.Method{Type: abs.MAkaPrime, AKA: a}}}}
		if k.R.Bool() {
			m.Payloads = append(m.Payloads, gen.Notify(k.R))
		}
		wire, err := ref.EncodeMsg(m, &ref.Opts{AKAOrder: true})
		if err != nil {
			return
		}
		lm, derr, pn := libDecodeKeep(wire)
		if derr != nil || pn != nil {
			return
		}
		ap, ok := lm.Payloads[0].(*message.PayloadEap).EapTypeData.(*eap.EapAkaPrime)
		if !ok {
			return
		}
		for _, t := range []uint8{abs.ATKdfInput, abs.ATKdf, abs.ATCheckcode, abs.ATMac, abs.ATRes, abs.ATAutn, abs.ATRand} {
			if k.R.Chance(2, 3) {
				n := map[uint8]int{abs.ATKdfInput: k.R.Intn(40), abs.ATKdf: 2, abs.ATCheckcode: 20, abs.ATMac: 16, abs.ATRes: 8, abs.ATAutn: 16, abs.ATRand: 16}[t]
				ap.SetAttr(eap.EapAkaPrimeAttrType(t), k.R.Bytes(n))
			}
		}
		k.Eval(1)
		before := bridge.ObserveMsg(lm).JSON()
		first, err := lm.Encode()
		if err != nil {
			return
		}
		for i := 0; i < 40; i++ {
			again, err := lm.Encode()
			if err != nil || !bytes.Equal(first, again) {
				k.Violate("nondeterministic", "repeated-encode-differs/amended-decoded-message", fmt.Sprintf("Encode #%d of the unmodified message differs from the first", i+2),
					M{"received": core.Hex(wire), "first": core.Hex(first), "other": core.Hex(again)})
				return
			}
		}
		if bridge.ObserveMsg(lm).JSON() != before {
			k.Violate("impure", "encode-alters-message", "", M{"received": core.Hex(wire)})
			return
		}
		k.Count("amended_decoded_encoded_x41", 1)
		k.Distinct("amended|" + bridge.ObserveMsg(lm).Shape())
	})
	c.Family("protect", c.N(1800, 300000), func(k *core.Case) {
		c20Protect(k, gen.Msg(k.R, gen.Opt{Protected: true, AllowEmpty: true, MaxPayloads: 4}), ref.Suites[k.Index%9])
	})
	if variant() == "plain" {
		c.Family("poisoned-buffer", c.N(1500, 300000), func(k *core.Case) {
			m := gen.Msg(k.R, gen.Opt{AllowEmpty: true, MaxPayloads: 5})
			wire, err := ref.EncodeMsg(m, &ref.Opts{Noise: k.R.Byte, AKANoise: k.R.Byte, AKAOrder: true})
			if err != nil {
				return
			}
			if k.Index%3 == 0 {
				s := ref.Suites[k.Index%9]
				raw := libsa.RandomRaw(k.R, s)
				inner, first, _ := ref.EncodeChain(m.Payloads, nil)
				padn := (16 - (len(inner)+1)%16) % 16
				init := k.R.Bool()
				pw, perr := ref.ProtectRaw(m, first, inner, s, raw.Dir(init), k.R.Bytes(16), k.R.Bytes(padn), nil)
				if perr != nil {
					return
				}
				c20Poisoned(k, pw, "protected", func(b []byte) (*message.IKEMessage, error) {
					key, _ := libsa.NewKey(raw)
					return ike.DecodeDecrypt(b, nil, key, role(!init))
				})
				return
			}
			c20Poisoned(k, wire, "plain", plainDec)
		})
		c.Require("poisoned_buffer_cases")
	}
	freshFamily(c, "C20", "fresh-process", c.N(2, 40))
	c.Require("fresh_process_cases_ok", "returned_datagram_overwritten_then_reencoded", "encode_pure", "protect_pure", "amended_decoded_encoded_x41", "decoded_and_scribbled_own-encoding", "decoded_and_scribbled_unprotected", "decoded_and_scribbled_protected-but-not-unprotected", "decoded_and_scribbled_mutated")
}

var _ = security.GenerateRandomUint8
