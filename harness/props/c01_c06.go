package props

import (
	"bytes"
	"fmt"
	"io"

	ike "github.com/free5gc/ike"
	"github.com/free5gc/ike/message"

	"verifharness/abs"
	"verifharness/bridge"
	"verifharness/core"
	"verifharness/gen"
	"verifharness/libsa"
	"verifharness/mon"
	"verifharness/ref"
)

func init() {
	core.Register("C01", c01)
	core.Register("C06", c06)
}

var randModes = []string{"real", "deterministic", "all-zero", "all-ff"}

func randSrc(mode int, r *core.Rng) io.Reader {
	switch mode {
	case 1:
		return core.NewRng(r.U64())
	case 2:
		return mon.Const(0)
	case 3:
		return mon.Const(0xff)
	}
	return mon.RealRand()
}

func sizeBucket(n int) string {
	switch {
	case n < 64:
		return "<64"
	case n < 256:
		return "<256"
	case n < 4096:
		return "<4k"
	case n < 60000:
		return "<60k"
	}
	return "60k+"
}

// cell decodes index -> (suite, sender role, header mode).
func cell(i int) (ref.Suite, bool, bool) {
	return ref.Suites[i%9], (i/9)%2 == 0, (i/18)%2 == 0
}

func c01One(k *core.Case, m *abs.Msg, ci int, mode int) {
	s, _, _ := cell(ci)
	c01OneWith(k, m, ci, mode, libsa.RandomRaw(k.R, s), nil)
}

// c01OneWith: src (if not nil) makes the random source of the protect call (searched crypto values)
func c01OneWith(k *core.Case, m *abs.Msg, ci int, mode int, raw libsa.Raw, src func() io.Reader) {
	s, init, pre := cell(ci)
	witness := func() M {
		return M{"msg": msgJSON(m), "keys": raw.JSON(), "sender_initiator": init, "preparsed_header": pre, "rand": randModes[mode]}
	}
	ks, err1 := libsa.NewKey(raw)
	kr, err2 := libsa.NewKey(raw)
	if err1 != nil || err2 != nil {
		k.Violate("setup", "NewCrypto/Init refused a key of the negotiated size", fmt.Sprint(err1, err2), witness())
		return
	}
	if k.Index%4 == 1 {
		pokeAccessors(ks)
		pokeAccessors(kr)
	}
	k.Eval(1)
	var wire []byte
	var err error
	var p *core.Panic
	rs := randSrc(mode, k.R)
	if src != nil {
		rs = src()
	}
	mon.WithRand(rs, func() { wire, err, p = libProtect(m, ks, init) })
	if p != nil {
		k.Violate("panic", "protect: "+p.Sig(), "EncodeEncrypt panicked", panicData(p, witness()))
		return
	}
	if err != nil {
		k.Violate("protect-error", "protect-error: "+classifyErr(err), "EncodeEncrypt failed on a domain message: "+errStr(err), witness())
		return
	}
	d, err, p := libUnprotect(wire, pre, kr, !init)
	w := witness()
	w["wire"] = core.HexClip(wire, 2048)
	if p != nil {
		k.Violate("panic", "unprotect: "+p.Sig(), "DecodeDecrypt panicked on a genuine message", panicData(p, w))
		return
	}
	if err != nil {
		k.Violate("unprotect-error", "unprotect-error: "+classifyErr(err), "DecodeDecrypt by the opposite role refused a genuine message: "+errStr(err), w)
		return
	}
	if !abs.Equal(m, d) {
		k.Violate("mismatch", "protected-roundtrip-mismatch: "+diffClass(m, d), "unprotect(protect(m)) != m: "+abs.Diff(m, d), w)
		return
	}
	k.Count("cell_"+s.Name(), 1)
	k.Count("rand_"+randModes[mode], 1)
	k.Distinct(fmt.Sprintf("%s|%v|%v|%s|%s|%s", s.Name(), init, pre, abs.Kinds(m), sizeBucket(len(wire)), randModes[mode]))
	if k.WantSample() && len(wire) < 400 {
		k.Sample(M{"suite": s.Name(), "sender_initiator": init, "preparsed_header": pre, "rand": randModes[mode], "msg": msgJSON(m), "wire": core.Hex(wire)})
	}
}

// no-key paths behave as plain encode / decode
func c01NoKey(k *core.Case, m *abs.Msg) {
	k.Eval(1)
	plain, perr, pp := libEncode(m)
	var viaEE []byte
	var eerr error
	p := core.Try(func() {
		lm, err := bridge.BuildMsg(m)
		if err != nil {
			eerr = err
			return
		}
		viaEE, eerr = ike.EncodeEncrypt(lm, nil, role(k.R.Bool()))
	})
	if p != nil || pp != nil {
		pv := p
		if pv == nil {
			pv = pp
		}
		k.Violate("panic", "nokey-encode: "+pv.Sig(), "encode without key panicked", panicData(pv, M{"msg": msgJSON(m)}))
		return
	}
	if (perr == nil) != (eerr == nil) || !bytes.Equal(plain, viaEE) {
		k.Violate("mismatch", "nokey-encode-differs", fmt.Sprintf("EncodeEncrypt(m,nil) differs from m.Encode(): %v / %v", errStr(eerr), errStr(perr)),
			M{"msg": msgJSON(m), "encode": core.HexClip(plain, 1024), "encodeencrypt": core.HexClip(viaEE, 1024)})
		return
	}
	if perr != nil {
		return
	}
	want, werr, _ := libDecode(plain)
	for _, pre := range []bool{false, true} {
		got, gerr, gp := libUnprotect(plain, pre, nil, k.R.Bool())
		if gp != nil {
			k.Violate("panic", "nokey-decode: "+gp.Sig(), "DecodeDecrypt without key panicked on an unprotected datagram",
				panicData(gp, M{"msg": msgJSON(m), "wire": core.HexClip(plain, 1024), "preparsed_header": pre}))
			return
		}
		if (werr == nil) != (gerr == nil) || (werr == nil && !abs.Equal(want, got)) {
			k.Violate("mismatch", "nokey-decode-differs", fmt.Sprintf("DecodeDecrypt(b,nil key) differs from Decode(b): %v / %v", errStr(gerr), errStr(werr)),
				M{"msg": msgJSON(m), "wire": core.HexClip(plain, 1024), "preparsed_header": pre})
			return
		}
		if werr == nil && !abs.Equal(m, got) {
			k.Violate("mismatch", "nokey-roundtrip-mismatch: "+diffClass(m, got), abs.Diff(m, got), M{"msg": msgJSON(m), "preparsed_header": pre})
			return
		}
	}
	k.Distinct("nokey|" + abs.Kinds(m))
}

// c01Session: one SA, two long-lived key objects (one per peer), a whole conversation.
// The property must hold for every message whatever was exchanged before it on the same SA.
func c01Session(k *core.Case) {
	s, _, pre := cell(k.Index % 36)
	raw := libsa.RandomRaw(k.R, s)
	ka, err1 := libsa.NewKey(raw) // initiator's object
	kb, err2 := libsa.NewKey(raw) // responder's object
	if err1 != nil || err2 != nil {
		k.Violate("setup", "NewKey failed", fmt.Sprint(err1, err2), nil)
		return
	}
	n := k.R.Pick(4, 8, 16)
	var hist []string
	for i := 0; i < n; i++ {
		var m *abs.Msg
		switch k.R.Intn(5) {
		case 0:
			m = gen.Header(k.R) // empty payload list
		case 1: // long
			m = gen.Header(k.R)
			m.Payloads = []abs.Payload{{Kind: abs.PNonce, Data: gen.DataN(k.R, k.R.Range(600, 3000))}}
		case 2: // short
			m = gen.Header(k.R)
			m.Payloads = []abs.Payload{{Kind: abs.PNotify, Notify: &abs.Notify{Proto: 1, Type: k.R.U16()}}}
		default:
			m = gen.Msg(k.R, gen.Opt{Protected: true, MaxPayloads: 4, AllowEmpty: true})
		}
		fromInit := k.R.Bool()
		snd, rcv := ka, kb
		if !fromInit {
			snd, rcv = kb, ka
		}
		k.Eval(1)
		wire, err, p := libProtect(m, snd, fromInit)
		hist = append(hist, fmt.Sprintf("%v:%s", fromInit, abs.Kinds(m)))
		w := M{"suite": s.Name(), "keys": raw.JSON(), "conversation": hist, "step": i, "msg": msgJSON(m), "sender_initiator": fromInit, "preparsed_header": pre}
		if err != nil || p != nil {
			k.Violate("protect-error", "session-protect-error", fmt.Sprint(err, p), w)
			return
		}
		w["wire"] = core.HexClip(wire, 2048)
		d, err, p := libUnprotect(wire, pre, rcv, !fromInit)
		if p != nil {
			k.Violate("panic", "session-unprotect: "+p.Sig(), "panic", panicData(p, w))
			return
		}
		if err != nil {
			k.Violate("unprotect-error", "session-unprotect-error: "+classifyErr(err), fmt.Sprintf("message %d of a conversation on one SA refused: %s", i, errStr(err)), w)
			return
		}
		if !abs.Equal(m, d) {
			k.Violate("mismatch", "session-roundtrip-mismatch: "+diffClass(m, d), abs.Diff(m, d), w)
			return
		}
	}
	k.Count("sessions", 1)
	k.Distinct(fmt.Sprintf("session|%s|%v|%d", s.Name(), pre, n))
}

func c01(c *core.Ctx) {
	c.Info("rule", "case = (suite, sender role, header mode [nil | pre-parsed], rand mode [real|deterministic|all-zero|all-ff], generated domain message whose protected form fits 16 bits); "+
		"distinct = that tuple with the message reduced to its ordered payload-kind list and wire-size bucket; non-trivial = protected by the library and accepted+compared (or the explicit empty payload list). "+
		"session cases: conversations of 4/8/16 messages of varying size in both directions between two long-lived key objects of one SA; no-key cases: EncodeEncrypt/DecodeDecrypt with nil key compared with Encode/Decode")
	c.Info("assumptions", "second IKESAKey object built from the same raw keys through StrToType/Init/NewCrypto stands for 'a holder of the same keys' || crypto/rand.Reader is the only random source of the library")
	cm := corpusMsgs()
	c.Family("corpus", len(cm)*36, func(k *core.Case) { c01One(k, cm[k.Index/36], k.Index%36, k.Index%4) })
	c.Family("corpus-nokey", len(cm), func(k *core.Case) { c01NoKey(k, cm[k.Index]) })
	c.Family("cells", c.N(36*600, 36*200000), func(k *core.Case) {
		m := gen.Msg(k.R, gen.Opt{Protected: true, AllowBig: k.Index%7 == 0, AllowEmpty: true})
		c01One(k, m, k.Index%36, (k.Index/36)%4)
	})
	c.Family("empty", 36*4, func(k *core.Case) {
		c01One(k, gen.Header(k.R), k.Index%36, (k.Index/36)%4)
	})
	c.Family("singles", c.N(36*60, 36*10000), func(k *core.Case) {
		m := gen.Header(k.R)
		kinds := gen.AllKinds()
		m.Payloads = []abs.Payload{gen.Payload(k.R, kinds[(k.Index/36)%len(kinds)])}
		c01One(k, m, k.Index%36, k.R.Intn(4))
	})
	c.Family("near-limit", c.N(36*4, 36*400), func(k *core.Case) {
		// protected size close to the 16-bit SK payload length
		m := gen.Header(k.R)
		inner := 65535 - 4 - 16 - 16 - 16 - k.R.Intn(40) // SK hdr, IV, max pad block, max ICV
		m.Payloads = []abs.Payload{{Kind: abs.PNonce, Data: gen.DataN(k.R, inner-4)}}
		if !gen.Fits(m, true) {
			return
		}
		c01One(k, m, k.Index%36, k.R.Intn(4))
	})
	// every cell (suite x role x header mode) x every size threshold of the inner payload chain x payload kinds whose
	// body can be sized exactly: combinations of "which suite" with "which size" that random sampling pairs up rarely
	innerSizes := []int{4, 5, 11, 12, 13, 15, 16, 17, 27, 28, 31, 32, 33, 47, 48, 49, 63, 64, 65, 239, 240, 241, 255, 256, 257, 511, 512, 513, 1023, 1024, 1025, 4091, 4092, 4095, 4096, 4097,
		8191, 8192, 8193, 16383, 16384, 16385, 32767, 32768, 32769, 65000, 65400}
	c.Family("cells-x-size-thresholds", 36*len(innerSizes), func(k *core.Case) {
		ci, inner := k.Index%36, innerSizes[k.Index/36]
		m := gen.Header(k.R)
		switch k.R.Intn(4) {
		case 0:
			m.Payloads = []abs.Payload{{Kind: abs.PNonce, Data: gen.DataN(k.R, inner-4)}}
		case 1:
			m.Payloads = []abs.Payload{{Kind: abs.PVendor, Data: gen.DataN(k.R, inner-4)}}
		case 2:
			if inner >= 9 {
				m.Payloads = []abs.Payload{{Kind: abs.PKE, KE: &abs.KE{Group: 14, Data: gen.DataN(k.R, inner-8)}}}
			}
		default: // two payloads adding up
			if inner > 13 {
				a := 1 + k.R.Intn(inner-13)
				m.Payloads = []abs.Payload{{Kind: abs.PNotify, Notify: &abs.Notify{Proto: 1, Type: 16390, Data: gen.DataN(k.R, a)}}, {Kind: abs.PNonce, Data: gen.DataN(k.R, inner-12-a)}}
			}
		}
		if len(m.Payloads) == 0 || !gen.Fits(m, true) {
			return
		}
		if chain, _, err := ref.EncodeChain(m.Payloads, nil); err != nil || len(chain) != inner {
			k.Count("size_threshold_not_hit(harness)", 1)
		} else {
			k.Count("cells_x_size_thresholds", 1)
		}
		c01One(k, m, ci, k.R.Intn(4))
	})
	c.Family("sessions", c.N(36*30, 36*20000), c01Session)
	// values the cryptography itself produces only now and then: checksums / ciphertexts / IVs that begin or end with
	// 0x00 or 0xFF (found by varying the Message ID under a fixed random stream), then the ordinary round trip
	c.Family("searched-crypto-values", c.N(36*nSpecial, 36*nSpecial*200), func(k *core.Case) {
		ci := k.Index % 36
		s, init, _ := cell(ci)
		raw := libsa.RandomRaw(k.R, s)
		m := gen.Msg(k.R, gen.Opt{Protected: true, MaxPayloads: 2, AllowEmpty: true})
		if src := searchSpecial(k, m, raw, init, (k.Index/36)%nSpecial); src != nil {
			c01OneWith(k, m, ci, 0, raw, src)
		}
	})
	freshFamily(c, "C01", "fresh-process", c.N(3, 60))
	c.Require("cells_x_size_thresholds", "fresh_process_cases_ok", "searched_crypto_value_found", "sessions", "msg_object_completed-after-plain-encode", "msg_object_header-parsed-from-a-protected-datagram", "msg_object_object-decoded-from-another-datagram", "msg_object_NewMessage")
	c.Family("nokey", c.N(8000, 2000000), func(k *core.Case) {
		m := gen.Msg(k.R, gen.Opt{AllowBig: k.Index%9 == 0, AllowEmpty: true})
		if k.Index%4 == 1 && len(m.Payloads) > 0 {
			// a datagram whose FIRST payload is not SK but whose last one is: still "handled as plain decode"
			m.Payloads = append(m.Payloads, abs.Payload{Kind: abs.PSK, SK: &abs.SK{Next: uint8(k.R.Pick(0, 33, 41)), Data: gen.DataN(k.R, k.R.Pick(1, 16, 48, 60))}})
		}
		c01NoKey(k, m)
	})
}

// searchSpecial varies m's Message ID until its protected form (under a fixed random stream, which it returns as a
// factory so that the real call reproduces it) has a crypto-produced value of the wanted kind.
const nSpecial = 8

func specialCond(cond int, w []byte, icv int) bool {
	if len(w) < 64+icv {
		return false
	}
	mac := w[len(w)-icv:]
	ct := w[48 : len(w)-icv]
	switch cond {
	case 0:
		return mac[0] == 0
	case 1:
		return mac[icv-1] == 0
	case 2:
		return mac[0] == 0xff
	case 3:
		return ct[0] == 0
	case 4:
		return ct[len(ct)-1] == 0
	case 5:
		return w[32] == 0 // IV
	case 6:
		return mac[0] == 0 && mac[1] == 0 || ct[len(ct)-1] == 0 && ct[len(ct)-2] == 0
	default:
		return bytes.Contains(w[28:], []byte{0, 0, 0})
	}
}

func searchSpecial(k *core.Case, m *abs.Msg, raw libsa.Raw, init bool, cond int) func() io.Reader {
	tries := 3000
	if cond == 6 {
		tries = 120000
		if k.Index%4 != 0 {
			tries = 3000
		}
	}
	for t := 0; t < tries; t++ {
		m.MsgID = k.R.U32()
		seed := k.R.U64() // IV and padding change with it (and with them the ciphertext)
		var w []byte
		var err error
		var p *core.Panic
		ks, kerr := libsa.NewKey(raw)
		if kerr != nil {
			return nil
		}
		lm, berr := bridge.BuildMsg(m)
		if berr != nil {
			return nil
		}
		mon.WithRand(core.NewRng(seed), func() {
			p = core.Try(func() { w, err = ike.EncodeEncrypt(lm, ks, role(init)) })
		})
		if err != nil || p != nil {
			return nil // judged by the ordinary families
		}
		if specialCond(cond, w, raw.Suite.ICVLen()) {
			k.Count("searched_crypto_value_found", 1)
			k.Count(fmt.Sprintf("searched_crypto_value_kind_%d", cond), 1)
			return func() io.Reader { return core.NewRng(seed) }
		}
	}
	k.Count("searched_crypto_value_not_found", 1)
	return nil
}

// ---------------------------------------------------------------------------
// C06

// senderTraceOK checks the spy trace of one EncodeEncrypt call by role `init`:
// Encrypt on the own-direction cipher, then Reset/Write/Sum on the
// own-direction MAC over out[:len-icv]; nothing on the other direction.
func senderTraceSpec(tr []mon.Event, init bool, out []byte, icv int) string {
	enc, mac := "Encr_r", "Integ_r"
	if init {
		enc, mac = "Encr_i", "Integ_i"
	}
	// the statement fixes WHICH objects are used and WHAT the checksum covers, not how many calls are made:
	// only own-direction objects, no Decrypt, at least one Encrypt before the checksum is taken, and the MAC input of
	// the final computation (everything written since its Reset) is exactly the output minus the checksum
	sawEncrypt := false
	for i, e := range tr {
		if e.Obj == "Prf_d" {
			continue
		}
		if e.Obj != enc && e.Obj != mac {
			return fmt.Sprintf("event %d uses %s; a sender in this role may only use %s and %s", i, e, enc, mac)
		}
		if e.Op == "Decrypt" {
			return "Decrypt during protection"
		}
		if e.Op == "Encrypt" {
			sawEncrypt = true
		}
	}
	if !sawEncrypt {
		return "no Encrypt on the sender's own-direction cipher object"
	}
	data, clean, found := mon.MACInput(tr, mac)
	if !found {
		return "no MAC computed on the sender's own-direction integrity object"
	}
	if !clean {
		return "MAC computation does not start with Reset"
	}
	if len(out) >= icv && !bytes.Equal(data, out[:len(out)-icv]) {
		return "MAC was not computed over exactly the output minus the checksum"
	}
	return ""
}

func c06Forward(k *core.Case, m *abs.Msg, ci int) {
	s, _, _ := cell(ci)
	c06ForwardWith(k, m, ci, libsa.RandomRaw(k.R, s), nil)
}

func c06ForwardWith(k *core.Case, m *abs.Msg, ci int, raw libsa.Raw, src func() io.Reader) {
	s, init, _ := cell(ci)
	ks, err := libsa.NewKey(raw)
	if err != nil {
		k.Violate("setup", "NewKey failed", err.Error(), nil)
		return
	}
	tr := libsa.Spy(ks)
	k.Eval(1)
	var wire []byte
	var p *core.Panic
	if src != nil {
		mon.WithRand(src(), func() { wire, err, p = libProtect(m, ks, init) })
	} else {
		wire, err, p = libProtect(m, ks, init)
	}
	w := M{"msg": msgJSON(m), "keys": raw.JSON(), "sender_initiator": init}
	if p != nil {
		k.Violate("panic", "protect: "+p.Sig(), "EncodeEncrypt panicked", panicData(p, w))
		return
	}
	if err != nil {
		k.Violate("protect-error", "protect-error: "+classifyErr(err), errStr(err), w)
		return
	}
	w["wire"] = core.HexClip(wire, 2048)
	if bad := senderTraceSpec(tr.Snapshot(), init, wire, s.ICVLen()); bad != "" {
		w["trace"] = tr.String()
		k.Violate("trace", "sender-trace: "+classifyErr(fmt.Errorf("%s", bad)), "cipher/MAC object use during protection: "+bad, w)
		return
	}
	um, pad, _, uerr := ref.Unprotect(wire, s, raw.Dir(init))
	if uerr != nil {
		k.Violate("interop", "independent-peer-rejects: "+classifyErr(uerr), "independent RFC 7296 3.14 peer cannot unprotect the library's message: "+uerr.Error(), w)
		return
	}
	if !abs.Equal(m, um) {
		k.Violate("mismatch", "independent-peer-mismatch: "+diffClass(m, um), "independent peer recovers different payloads: "+abs.Diff(m, um), w)
		return
	}
	inner, _, _ := ref.EncodeChain(m.Payloads, nil)
	// size law: body = IV | blocks, blocks cover inner+pad+1, pad <= 255
	body := len(wire) - 28 - 4 - 16 - s.ICVLen()
	if body%16 != 0 || body <= len(inner) || body > len(inner)+256 || len(pad)+1+len(inner) != body {
		k.Violate("layout", "sk-size-law", fmt.Sprintf("ciphertext %d octets for %d inner octets, pad %d", body, len(inner), len(pad)), w)
		return
	}
	k.Count(fmt.Sprintf("lib_pad_len_%d", len(pad)), 1)
	k.Distinct(fmt.Sprintf("fwd|%s|%v|pad%d|%s", s.Name(), init, len(pad), abs.Kinds(m)))
	// the caller keeps its payload list and sends it again in further message objects (next Message ID, or the same
	// content to another peer): every one of them must be the protected form of exactly that list
	if k.Index%3 == 0 && len(m.Payloads) > 0 {
		cont, berr := bridge.BuildPayloads(m.Payloads)
		if berr != nil {
			return
		}
		for round := 0; round < 3; round++ {
			m2 := *m
			m2.MsgID = m.MsgID + uint32(round)
			lm := &message.IKEMessage{IKEHeader: &message.IKEHeader{InitiatorSPI: m2.ISPI, ResponderSPI: m2.RSPI, MajorVersion: m2.Major, MinorVersion: m2.Minor,
				ExchangeType: m2.Exch, Flags: m2.Flags, MessageID: m2.MsgID}, Payloads: cont}
			kx, _ := libsa.NewKey(raw)
			var w2 []byte
			var err2 error
			if pn := core.Try(func() { w2, err2 = ike.EncodeEncrypt(lm, kx, role(init)) }); pn != nil || err2 != nil {
				k.Violate("protect-error", "payload-list-sent-again-error", fmt.Sprint(err2, pn), w)
				return
			}
			u2, _, _, uerr := ref.Unprotect(w2, s, raw.Dir(init))
			if uerr != nil || !abs.Equal(&m2, u2) {
				d := "rejected: " + fmt.Sprint(uerr)
				if uerr == nil {
					d = abs.Diff(&m2, u2)
				}
				k.Violate("mismatch", "payload-list-sent-again-differs", fmt.Sprintf("message %d built from the payload list the caller still holds: %s", round+1, d), w)
				return
			}
		}
		k.Count("payload_list_sent_in_three_messages", 1)
	}
	if k.WantSample() && len(wire) < 300 {
		k.Sample(M{"dir": "library->independent peer", "suite": s.Name(), "sender_initiator": init, "msg": msgJSON(m), "wire": core.Hex(wire), "pad_len": len(pad)})
	}
}

func c06Backward(k *core.Case, m *abs.Msg, ci int) {
	s, init, pre := cell(ci)
	raw := libsa.RandomRaw(k.R, s)
	inner, _, err := ref.EncodeChain(m.Payloads, nil)
	if err != nil {
		return
	}
	// every legal pad length
	for padn := (16 - (len(inner)+1)%16) % 16; padn <= 255; padn += 16 {
		if 4+16+len(inner)+padn+1+s.ICVLen() > 0xffff {
			break
		}
		var pad []byte
		switch k.R.Intn(4) {
		case 0:
			pad = make([]byte, padn)
		case 1:
			pad = bytes.Repeat([]byte{byte(padn)}, padn) // PKCS#7-looking
		default:
			pad = k.R.Bytes(padn)
		}
		iv := k.R.Bytes(16)
		var o *ref.Opts
		if k.R.Bool() {
			o = &ref.Opts{Noise: k.R.Byte}
		}
		wire, err := ref.Protect(m, s, raw.Dir(init), iv, pad, o)
		if err != nil {
			continue
		}
		kr, err := libsa.NewKey(raw)
		if err != nil {
			k.Violate("setup", "NewKey failed", err.Error(), nil)
			return
		}
		k.Eval(1)
		d, derr, p := libUnprotect(wire, pre, kr, !init)
		w := M{"msg": msgJSON(m), "keys": raw.JSON(), "sender_initiator": init, "preparsed_header": pre, "pad_len": padn,
			"pad": core.Hex(pad), "iv": core.Hex(iv), "wire": core.HexClip(wire, 2048)}
		if p != nil {
			k.Violate("panic", "unprotect: "+p.Sig(), "DecodeDecrypt panicked on a reference-built message", panicData(p, w))
			return
		}
		if derr != nil {
			k.Violate("interop", "library-rejects-independent-peer: "+classifyErr(derr), fmt.Sprintf("pad length %d: %s", padn, errStr(derr)), w)
			return
		}
		if !abs.Equal(m, d) {
			k.Violate("mismatch", "reference-message-mismatch: "+diffClass(m, d), abs.Diff(m, d), w)
			return
		}
		k.Count(fmt.Sprintf("ref_pad_len_mod_%d", padn/16), 1)
		k.Distinct(fmt.Sprintf("bwd|%s|%v|pad%d|%s", s.Name(), init, padn, abs.Kinds(m)))
	}
	if k.WantSample() && k.Index%3 == 0 {
		k.Sample(M{"dir": "independent peer->library, all legal pad lengths", "suite": s.Name(), "sender_initiator": init, "msg": msgJSON(m)})
	}
}

func c06(c *core.Ctx) {
	c.Info("rule", "forward case = (suite, sender role, domain message) protected by the library and unprotected by the independent peer (+ sender spy trace); backward case = reference-protected message for EVERY legal pad length "+
		"(0..255, congruent) with zero / PKCS#7-like / random pad octets, random IV, unprotected by the library in the opposite role; distinct = (direction, suite, role, pad length, payload-kind list)")
	c.Info("assumptions", "the independent peer is /verif/harness/ref (hand-built HMAC, CBC over the bare AES block, strict parser) || HMAC collisions do not occur")
	cm := corpusMsgs()
	c.Family("corpus-fwd", len(cm)*18, func(k *core.Case) { c06Forward(k, cm[k.Index/18], k.Index%18) })
	c.Family("corpus-bwd", len(cm)*4, func(k *core.Case) { c06Backward(k, cm[k.Index/4], k.R.Intn(36)) })
	c.Family("fwd", c.N(18*400, 18*150000), func(k *core.Case) {
		c06Forward(k, gen.Msg(k.R, gen.Opt{Protected: true, AllowBig: k.Index%11 == 0, AllowEmpty: true}), k.Index%18)
	})
	c.Family("bwd", c.N(36*100, 36*40000), func(k *core.Case) {
		c06Backward(k, gen.Msg(k.R, gen.Opt{Protected: true, AllowEmpty: true, MaxPayloads: 4}), k.Index%36)
	})
	c.Family("bwd-empty", 36, func(k *core.Case) { c06Backward(k, gen.Header(k.R), k.Index%36) })
	// several genuine peer datagrams sit back to back in ONE receive buffer (a batch read); each is presented as a
	// sub-slice whose capacity runs into the next: every one must be accepted and decoded correctly, in any order
	// the random source fails during one protection; the application retries with the SAME message object once the
	// source works again: the retry is the protected form of the message's payloads
	c.Family("fwd-retry-after-refused-protection", c.N(18*10, 18*1000), func(k *core.Case) {
		s, init, _ := cell(k.Index % 18 * 2)
		raw := libsa.RandomRaw(k.R, s)
		m := gen.Msg(k.R, gen.Opt{Protected: true, MaxPayloads: 3})
		lm, err := buildMsgObject(m)
		if err != nil {
			return
		}
		ks, kerr := libsa.NewKey(raw)
		if kerr != nil {
			return
		}
		f := &mon.Faulty{Src: mon.RealRand(), FailAt: k.Index / 18 % 3, Mode: k.Index / 54 % 3, Err: mon.FaultErrors[k.Index%len(mon.FaultErrors)]}
		var e1 error
		p1 := core.Try(func() { mon.WithRand(f, func() { _, e1 = ike.EncodeEncrypt(lm, ks, role(init)) }) })
		w := M{"msg": msgJSON(m), "suite": s.Name(), "keys": raw.JSON(), "fault_at_read": f.FailAt, "fault_mode": f.Mode}
		if p1 != nil {
			k.Violate("panic", "protect-fault: "+p1.Sig(), "panic", panicData(p1, w))
			return
		}
		if !f.Hit || e1 == nil {
			return // the failure point lies behind the reads of this call
		}
		k.Eval(1)
		var wire []byte
		p2 := core.Try(func() { wire, err = ike.EncodeEncrypt(lm, ks, role(init)) })
		if p2 != nil || err != nil {
			k.Violate("protect-error", "retry-after-refused-protection-fails", fmt.Sprint(err, p2), w)
			return
		}
		um, _, _, uerr := ref.Unprotect(wire, s, raw.Dir(init))
		if uerr != nil || !abs.Equal(m, um) {
			d := fmt.Sprint(uerr)
			if uerr == nil {
				d = abs.Diff(m, um)
			}
			k.Violate("mismatch", "retry-after-refused-protection-sends-other-payloads", d, w)
			return
		}
		k.Count("retries_after_refused_protection", 1)
	})
	c.Family("bwd-back-to-back", c.N(36*12, 36*2000), func(k *core.Case) {
		s, init, pre := cell(k.Index % 36)
		raw := libsa.RandomRaw(k.R, s)
		dir := raw.Dir(init)
		n := 2 + k.R.Intn(3)
		var msgs []*abs.Msg
		var offs []int
		var buf []byte
		for i := 0; i < n; i++ {
			m := gen.Msg(k.R, gen.Opt{Protected: true, MaxPayloads: 2, AllowEmpty: true})
			inner, first, err := ref.EncodeChain(m.Payloads, nil)
			if err != nil || len(inner) > 3000 {
				return
			}
			padn := (16 - (len(inner)+1)%16) % 16
			w, err := ref.ProtectRaw(m, first, inner, s, dir, k.R.Bytes(16), k.R.Bytes(padn), nil)
			if err != nil {
				return
			}
			msgs = append(msgs, m)
			offs = append(offs, len(buf))
			buf = append(buf, w...)
		}
		offs = append(offs, len(buf))
		buf = append(buf, make([]byte, 64)...)[:len(buf)] // spare room behind the last one too
		key, kerr := libsa.NewKey(raw)
		if kerr != nil {
			return
		}
		order := k.R.Pick(0, 1) // in arrival order, or last first
		for j := 0; j < n; j++ {
			i := j
			if order == 1 {
				i = n - 1 - j
			}
			k.Eval(1)
			view := buf[offs[i]:offs[i+1]] // capacity reaches to the end of the buffer
			d, err, p := libUnprotect(view, pre, key, !init)
			w := M{"suite": s.Name(), "keys": raw.JSON(), "datagram_index": i, "datagrams_in_buffer": n, "buffer": core.HexClip(buf, 4096)}
			if p != nil {
				k.Violate("panic", "back-to-back: "+p.Sig(), "panic", panicData(p, w))
				return
			}
			if err != nil || !abs.Equal(msgs[i], d) {
				k.Violate("interop", "genuine-datagram-rejected-when-others-share-its-buffer", fmt.Sprintf("datagram %d of %d in one buffer: %v", i+1, n, err), w)
				return
			}
		}
		k.Count("batches_of_datagrams_in_one_buffer", 1)
		k.Distinct(fmt.Sprintf("b2b|%s|%d|%d", s.Name(), n, order))
	})
	c.Family("fwd-cells-x-size-thresholds", 18*32, func(k *core.Case) {
		sizes := []int{4, 11, 12, 13, 15, 16, 17, 31, 32, 33, 255, 256, 257, 1023, 1024, 1025, 4095, 4096, 4097, 8191, 8192, 8193, 16383, 16384, 16385, 32767, 32768, 32769, 65000, 65400, 240, 241}
		inner := sizes[k.Index/18%len(sizes)]
		m := gen.Header(k.R)
		m.Payloads = []abs.Payload{{Kind: uint8(k.R.Pick(abs.PNonce, abs.PVendor)), Data: gen.DataN(k.R, inner-4)}}
		if gen.Fits(m, true) {
			c06Forward(k, m, k.Index%18*2)
			k.Count("fwd_cells_x_size_thresholds", 1)
		}
	})
	// two DIFFERENT genuine peer messages of equal size whose IV|ciphertext (or ciphertext, or whole SK body up to the
	// checksum) agree in a weak fingerprint (CRC-32 variants, CRC-64, XOR): the peer holds the key, so it can choose
	// the ciphertext blocks that lie in its (non-minimal, arbitrary-content) padding and thereby steer the checksum.
	// Presented one directly after the other to ONE receiver object: each must decode to its own payloads.
	c.Family("bwd-colliding-ciphertexts", c.N(36*len(core.Fingerprints), 36*len(core.Fingerprints)*40), func(k *core.Case) {
		s, init, pre := cell(k.Index % 36)
		fp := core.Fingerprints[k.Index/36%len(core.Fingerprints)]
		raw := libsa.RandomRaw(k.R, s)
		dir := raw.Dir(init)
		mk := func(plen int) (*abs.Msg, uint8, []byte, []byte, bool) {
			for try := 0; try < 50; try++ {
				m := gen.Msg(k.R, gen.Opt{Protected: true, MaxPayloads: 2})
				inner, first, err := ref.EncodeChain(m.Payloads, nil)
				if err != nil || len(inner) > 200 {
					continue
				}
				if plen == 0 {
					plen = (len(inner)/16 + 6) * 16 // at least four blocks of padding
				}
				padn := plen - len(inner) - 1
				if padn < 64 || padn > 255 {
					continue
				}
				pt := append(append(append([]byte{}, inner...), k.R.Bytes(padn)...), byte(padn))
				iv := k.R.Bytes(16)
				ct, err := ref.CBCEncrypt(dir.Ke, iv, pt)
				if err != nil {
					continue
				}
				return m, first, iv, ct, true
			}
			return nil, 0, nil, nil, false
		}
		ma, fa, iva, cta, ok := mk(0)
		if !ok {
			return
		}
		mb, fb, ivb, ctb, ok := mk(len(cta))
		if !ok {
			return
		}
		region := k.Index / (36 * len(core.Fingerprints)) % 3
		reg := func(iv, ct []byte) []byte {
			switch region {
			case 0:
				return append(append([]byte{}, iv...), ct...)
			case 1:
				return ct
			default:
				return append(append([]byte{fa, 0, 0, 0}, iv...), ct...)
			}
		}
		// patch inside block n-3 of B's ciphertext: plaintext blocks n-3 and n-2 change, both are padding
		pos := len(ctb) - 48 + k.R.Intn(16-fp.Bytes+1)
		target := fp.F(reg(iva, cta))
		wrapped := core.Fingerprint{Name: fp.Name, Bits: fp.Bits, Bytes: fp.Bytes, F: func(b []byte) uint64 { return fp.F(reg(ivb, b)) }}
		if !core.PatchToCollide(ctb, pos, wrapped, target) {
			k.Count("no_collision_constructed", 1)
			return
		}
		wa := ref.AssembleProtected(ma, fa, iva, cta, s, dir.Ka)
		wb := ref.AssembleProtected(mb, fb, ivb, ctb, s, dir.Ka)
		if um, _, _, err := ref.Unprotect(wb, s, dir); err != nil || !abs.Equal(mb, um) {
			k.Count("constructed_message_not_genuine(harness)", 1)
			return
		}
		key, kerr := libsa.NewKey(raw)
		if kerr != nil {
			return
		}
		w := M{"suite": s.Name(), "keys": raw.JSON(), "fingerprint": fp.Name, "region": region, "first": core.Hex(wa), "second": core.Hex(wb)}
		for round, x := range []struct {
			wire []byte
			m    *abs.Msg
		}{{wa, ma}, {wb, mb}, {wa, ma}} {
			k.Eval(1)
			d, err, p := libUnprotectWith(x.wire, nil, key, !init)
			if pre {
				d, err, p = libUnprotect(x.wire, true, key, !init)
			}
			if p != nil {
				k.Violate("panic", "colliding: "+p.Sig(), "panic", panicData(p, w))
				return
			}
			if err != nil || !abs.Equal(x.m, d) {
				k.Violate("mismatch", "genuine-message-with-colliding-ciphertext-fingerprint-decoded-wrongly/"+fp.Name, fmt.Sprintf("presentation %d: err=%v %s", round+1, err, func() string {
					if d != nil {
						return abs.Diff(x.m, d)
					}
					return ""
				}()), w)
				return
			}
		}
		k.Count("colliding_ciphertext_pairs_presented", 1)
		k.Distinct(fmt.Sprintf("collide|%s|%d|%s", fp.Name, region, s.Name()))
	})
	c.Family("fwd-searched-crypto-values", c.N(18*nSpecial, 18*nSpecial*200), func(k *core.Case) {
		ci := k.Index % 18 * 2
		s, init, _ := cell(ci)
		raw := libsa.RandomRaw(k.R, s)
		m := gen.Msg(k.R, gen.Opt{Protected: true, MaxPayloads: 2, AllowEmpty: true})
		if src := searchSpecial(k, m, raw, init, (k.Index/18)%nSpecial); src != nil {
			c06ForwardWith(k, m, ci, raw, src)
		}
	})
	// around the 16-bit limit of the SK payload: whatever EncodeEncrypt returns WITHOUT an error must be a well-formed
	// protected message (lengths final, accepted by the independent peer); beyond the limit an error is the only other outcome
	c.Family("fwd-at-limit", 18*48, func(k *core.Case) {
		s, init, _ := cell(k.Index % 18)
		inner := 65440 + (k.Index/18)*2 + k.R.Intn(2) // 65440..65535
		m := gen.Header(k.R)
		m.Payloads = []abs.Payload{{Kind: abs.PNonce, Data: gen.DataN(k.R, inner-4)}}
		if k.R.Bool() && inner > 300 {
			m.Payloads = []abs.Payload{{Kind: abs.PNotify, Notify: &abs.Notify{Type: 16384, Data: gen.DataN(k.R, 100)}},
				{Kind: abs.PVendor, Data: gen.DataN(k.R, inner-4-4-4-100)}}
		}
		raw := libsa.RandomRaw(k.R, s)
		ks, err := libsa.NewKey(raw)
		if err != nil {
			return
		}
		k.Eval(1)
		wire, err, p := libProtect(m, ks, init)
		w := M{"suite": s.Name(), "inner_octets": inner, "sender_initiator": init, "keys": raw.JSON()}
		if p != nil {
			k.Violate("panic", "protect-at-limit: "+p.Sig(), "panic", panicData(p, w))
			return
		}
		if err != nil {
			k.Count("at_limit_refused_with_error", 1)
			k.Distinct(fmt.Sprintf("limit|err|%s|%d", s.Name(), inner/16))
			return
		}
		um, _, _, uerr := ref.Unprotect(wire, s, raw.Dir(init))
		if uerr != nil || !abs.Equal(m, um) {
			w["wire_len"] = len(wire)
			w["wire_head"] = core.Hex(wire[:48])
			k.Violate("layout", "malformed-protected-message-returned-without-error: "+classifyErr(fmt.Errorf("%v", uerr)),
				fmt.Sprintf("EncodeEncrypt returned %d octets and no error for %d inner octets, but the independent peer cannot unprotect it: %v", len(wire), inner, uerr), w)
			return
		}
		k.Count("at_limit_protected_ok", 1)
		k.Distinct(fmt.Sprintf("limit|ok|%s|%d", s.Name(), inner/16))
	})
	freshFamily(c, "C06", "fresh-process", c.N(3, 60))
	c.Require("retries_after_refused_protection", "batches_of_datagrams_in_one_buffer", "fwd_cells_x_size_thresholds", "colliding_ciphertext_pairs_presented", "fresh_process_cases_ok", "searched_crypto_value_found", "payload_list_sent_in_three_messages", "at_limit_refused_with_error", "at_limit_protected_ok", "msg_object_completed-after-plain-encode", "msg_object_header-parsed-from-a-protected-datagram", "msg_object_object-decoded-from-another-datagram", "msg_object_NewMessage")
}

var _ = message.TypeSK
