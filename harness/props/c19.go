package props

import (
	"bytes"
	"fmt"
	"sync"

	"github.com/free5gc/ike/eap"
	"github.com/free5gc/ike/message"

	"verifharness/abs"
	"verifharness/bridge"
	"verifharness/core"
	"verifharness/gen"
	"verifharness/ref"
)

func init() { core.Register("C19", c19) }

var oversizes = []int{0, 1, 2, 255, 256, 257, 65531, 65535, 65536, 70000}

func argSize(r *core.Rng, idx int) int {
	if idx%4 == 0 {
		return oversizes[r.Intn(len(oversizes))]
	}
	return gen.Size(r, 0)
}

// builderCase: applies one builder to a container that already holds `prior`
// payloads; returns the abstract payload the arguments describe, whether the
// builder itself reported an error, and a label.
type builderCase struct {
	name   string
	expect abs.Payload
	err    error
	skip   bool   // builder legitimately appended nothing (documented no-op inputs)
	viol   string // a post-condition of a (sub-)builder already failed inside applyBuilder
}

// argSlices collects the byte slices handed to the builders by the current case, so that the caller's
// buffers can be overwritten afterwards (a built payload must not change when the caller reuses its buffer)
var argSlices [][]byte

func arg(b []byte) []byte {
	argSlices = append(argSlices, b)
	return b
}

type argRng struct{ *core.Rng }

func (a argRng) Bytes(n int) []byte { return arg(a.Rng.Bytes(n)) }

func applyBuilder(r0 *core.Rng, idx int, c *message.IKEPayloadContainer) builderCase {
	which := idx % 24
	r := argRng{r0}
	d := func() []byte { return r.Bytes(argSize(r0, idx/24)) }
	switch which {
	case 0:
		proto, typ, spi, data := r.Byte(), r.U16(), r.Bytes(r.Pick(0, 4, 8, 255, 256, 300)), d()
		if (idx/24)%2 == 1 {
			// the notify types the protocols define (error types 1..44, status types 16384.., 3GPP), with and without
			// SPI, with and without data
			typ = uint16(r0.Pick(1, 4, 5, 7, 9, 11, 11, 14, 17, 24, 34, 35, 36, 37, 38, 39, 40, 41, 43, 44, 16384, 16388, 16389, 16390, 16393, 16394, 16404, 55501, 55502, 55504, 55506))
			if r0.Bool() {
				data = arg(nil)
			}
			if r0.Bool() {
				spi = arg(r0.Bytes(r0.Pick(4, 8)))
			}
		}
		c.BuildNotification(proto, typ, spi, data)
		return builderCase{name: "BuildNotification", expect: abs.Payload{Kind: abs.PNotify, Notify: &abs.Notify{Proto: proto, Type: typ, SPI: spi, Data: data}}}
	case 1:
		enc, data := r.Byte(), d()
		c.BuildCertificate(enc, data)
		return builderCase{name: "BuildCertificate", expect: abs.Payload{Kind: abs.PCERT, Cert: &abs.Cert{Enc: enc, Data: data}}}
	case 2:
		next, data := uint8(33+r.Intn(16)), d()
		sk := c.BuildEncrypted(message.IkePayloadType(next), data)
		if sk == nil || sk != (*c)[len(*c)-1] {
			return builderCase{name: "BuildEncrypted", viol: fmt.Sprintf("returned payload is not the appended one")}
		}
		return builderCase{name: "BuildEncrypted", expect: abs.Payload{Kind: abs.PSK, SK: &abs.SK{Next: next, Data: data}}}
	case 3:
		g, data := r.U16(), d()
		if (idx/24)%3 != 0 {
			// group and value that belong together (modulus length +-1, leading sign octet, ...)
			var kd abs.HB
			g, kd = gen.KE(r0)
			data = arg(append([]byte{}, kd...))
		}
		c.BUildKeyExchange(g, data)
		return builderCase{name: "BUildKeyExchange", expect: abs.Payload{Kind: abs.PKE, KE: &abs.KE{Group: g, Data: data}}}
	case 4:
		t, data := r.Byte(), d()
		c.BuildIdentificationInitiator(t, data)
		return builderCase{name: "BuildIdentificationInitiator", expect: abs.Payload{Kind: abs.PIDi, ID: &abs.ID{Type: t, Data: data}}}
	case 5:
		t, data := r.Byte(), d()
		c.BuildIdentificationResponder(t, data)
		return builderCase{name: "BuildIdentificationResponder", expect: abs.Payload{Kind: abs.PIDr, ID: &abs.ID{Type: t, Data: data}}}
	case 6:
		m, data := r.Byte(), d()
		c.BuildAuthentication(m, data)
		return builderCase{name: "BuildAuthentication", expect: abs.Payload{Kind: abs.PAUTH, Auth: &abs.Auth{Method: m, Data: data}}}
	case 7:
		data := d()
		c.BuildNonce(data)
		return builderCase{name: "BuildNonce", expect: abs.Payload{Kind: abs.PNonce, Data: data}}
	case 8:
		ct := r.Byte()
		cp := c.BuildConfiguration(ct)
		want := &abs.CP{Type: ct}
		n := 1 + r.Intn(5)
		for i := 0; i < n; i++ {
			t, v := r.U16()&0x7fff, r.Bytes(argSize(r0, idx/24+i))
			if i > 0 && r.Chance(1, 3) { // the same attribute type again (e.g. two INTERNAL_IP4_DNS), same or other value
				t = want.Attrs[len(want.Attrs)-1].Type
				if r.Bool() {
					v = append([]byte{}, want.Attrs[len(want.Attrs)-1].Value...)
				}
			}
			before := len(cp.ConfigurationAttribute)
			cp.ConfigurationAttribute.BuildConfigurationAttribute(t, v)
			if len(cp.ConfigurationAttribute) != before+1 {
				return builderCase{name: "BuildConfigurationAttribute", viol: fmt.Sprintf("attribute list grew by %d", len(cp.ConfigurationAttribute)-before)}
			}
			want.Attrs = append(want.Attrs, abs.CPAttr{Type: t, Value: v})
		}
		return builderCase{name: "BuildConfiguration", expect: abs.Payload{Kind: abs.PCP, CP: want}}
	case 9, 10:
		want := &abs.TS{}
		var sel *message.IndividualTrafficSelectorContainer
		kind := uint8(abs.PTSi)
		if which == 9 {
			sel = &c.BuildTrafficSelectorInitiator().TrafficSelectors
		} else {
			sel = &c.BuildTrafficSelectorResponder().TrafficSelectors
			kind = abs.PTSr
		}
		n := r.Pick(1, 1, 2, 3, 255, 256)
		for i := 0; i < n; i++ {
			s := gen.Selector(r0)
			if i > 0 && r.Chance(1, 4) {
				s = want.Sel[len(want.Sel)-1] // an identical selector again
			}
			before := len(*sel)
			sel.BuildIndividualTrafficSelector(s.Type, s.Proto, s.StartPort, s.EndPort, s.StartAddr, s.EndAddr)
			if len(*sel) != before+1 {
				return builderCase{name: "BuildIndividualTrafficSelector", viol: fmt.Sprintf("selector list grew by %d", len(*sel)-before)}
			}
			want.Sel = append(want.Sel, s)
		}
		return builderCase{name: "BuildTrafficSelector", expect: abs.Payload{Kind: kind, TS: want}}
	case 11:
		sa := c.BuildSecurityAssociation()
		want := &abs.SA{}
		np := 1 + r.Intn(3)
		for i := 0; i < np; i++ {
			num, proto, spi := r.Byte(), r.Byte(), r.Bytes(r.Pick(0, 4, 8, 255, 256))
			before := len(sa.Proposals)
			p := sa.Proposals.BuildProposal(num, proto, spi)
			if len(sa.Proposals) != before+1 || p != sa.Proposals[before] {
				return builderCase{name: "BuildProposal", viol: fmt.Sprintf("proposal list grew by %d", len(sa.Proposals)-before)}
			}
			ap := abs.Proposal{Num: num, Proto: proto, SPI: spi}
			nt := 1 + r.Intn(6)
			for j := 0; j < nt; j++ {
				t := gen.Transform(r0, uint8(1+r.Intn(5)))
				if j > 0 && r.Chance(1, 3) {
					// the same algorithm offered again: identical, or with another attribute value (e.g. AES-CBC 128/192/256)
					t = ap.Transforms[len(ap.Transforms)-1]
					if t.HasAttr && r.Bool() {
						if t.TV {
							t.AttrVal += uint16(64 * (1 + r.Intn(3)))
						} else {
							t.AttrBytes = gen.DataN(r0, len(t.AttrBytes)+r.Intn(2))
						}
					}
				}
				tc := []*message.TransformContainer{&p.EncryptionAlgorithm, &p.PseudorandomFunction, &p.IntegrityAlgorithm, &p.DiffieHellmanGroup, &p.ExtendedSequenceNumbers}[t.Type-1]
				before := len(*tc)
				var at, av *uint16
				if t.HasAttr {
					x := t.AttrType
					at = &x
					if t.TV {
						y := t.AttrVal
						av = &y
					}
				}
				tc.BuildTransform(t.Type, t.ID, at, av, t.AttrBytes)
				if len(*tc) != before+1 {
					return builderCase{name: "BuildTransform", viol: fmt.Sprintf("transform list grew by %d", len(*tc)-before)}
				}
				ap.Transforms = append(ap.Transforms, t)
			}
			want.Proposals = append(want.Proposals, ap)
		}
		return builderCase{name: "BuildSecurityAssociation", expect: abs.Payload{Kind: abs.PSA, SA: want}}
	case 12:
		proto := r.Byte()
		if r.Bool() {
			c.BuildDeletePayload(proto, 0, 0, nil)
			return builderCase{name: "BuildDeletePayload", expect: abs.Payload{Kind: abs.PDelete, Delete: &abs.Delete{Proto: proto}}}
		}
		n := r.Pick(1, 2, 255, 4000)
		spis := make([]uint32, n)
		for i := range spis {
			spis[i] = r.U32()
		}
		num, size := uint16(n), uint8(4)
		if (idx/24)%3 == 1 {
			// count / size arguments that do NOT agree with the list: the payload still holds exactly what was passed
			// (encoding it is refused later)
			num = uint16(r.Pick(0, n-1, n+1, n+7, 65535))
			size = uint8(r.Pick(4, 4, 0, 8))
		}
		c.BuildDeletePayload(proto, size, num, spis)
		return builderCase{name: "BuildDeletePayload", expect: abs.Payload{Kind: abs.PDelete, Delete: &abs.Delete{Proto: proto, SPISize: size, Num: num, SPIs: append([]uint32{}, spis...)}}}
	case 13:
		code, id := r.Byte(), r.Byte()
		pe := c.BuildEAP(eap.EapCode(code), id)
		if pe == nil || message.IKEPayload(pe) != (*c)[len(*c)-1] {
			return builderCase{name: "BuildEAP", viol: fmt.Sprintf("returned payload is not the appended one")}
		}
		return builderCase{name: "BuildEAP", expect: abs.Payload{Kind: abs.PEAP, EAP: &abs.EAP{Code: code, ID: id}}}
	case 14:
		id := r.Byte()
		c.BuildEAPSuccess(id)
		return builderCase{name: "BuildEAPSuccess", expect: abs.Payload{Kind: abs.PEAP, EAP: &abs.EAP{Code: 3, ID: id}}}
	case 15:
		id := r.Byte()
		c.BuildEAPfailure(id)
		return builderCase{name: "BuildEAPfailure", expect: abs.Payload{Kind: abs.PEAP, EAP: &abs.EAP{Code: 4, ID: id}}}
	case 16:
		id := r.Byte()
		vid, vt, data := r.U32()&0xffffff, r.U32(), d()
		pe := c.BuildEAP(eap.EapCodeResponse, id)
		pe.EapTypeData = message.BuildEapExpanded(vid, vt, data)
		return builderCase{name: "BuildEapExpanded", expect: abs.Payload{Kind: abs.PEAP, EAP: &abs.EAP{Code: 2, ID: id, Method: &abs.Method{Type: abs.MExpanded, VendorID: vid, VendorType: vt, VendorData: data}}}}
	case 17:
		id := r.Byte()
		c.BuildEAP5GStart(id)
		return builderCase{name: "BuildEAP5GStart", expect: abs.Payload{Kind: abs.PEAP, EAP: &abs.EAP{Code: 1, ID: id, Method: &abs.Method{Type: abs.MExpanded, VendorID: 10415, VendorType: 3, VendorData: abs.HB{1, 0}}}}}
	case 18:
		id := r.Byte()
		n := r.Pick(1, 2, 100, 255, 256, 1500, 65000, 65523, 65535, 65536, 70000)
		nas := r.Bytes(n)
		err := c.BuildEAP5GNAS(id, nas)
		if err != nil {
			return builderCase{name: "BuildEAP5GNAS", err: err}
		}
		vd := append([]byte{2, 0, byte(n >> 8), byte(n)}, nas...)
		if n > 0xffff {
			return builderCase{name: "BuildEAP5GNAS", err: nil, expect: abs.Payload{Kind: 0}} // must have failed
		}
		return builderCase{name: "BuildEAP5GNAS", expect: abs.Payload{Kind: abs.PEAP, EAP: &abs.EAP{Code: 1, ID: id, Method: &abs.Method{Type: abs.MExpanded, VendorID: 10415, VendorType: 3, VendorData: vd}}}}
	case 19:
		sess := r.Byte()
		nq := r.Pick(0, 1, 2, 3, 63, 250, 251, 252, 253, 255, 256, 300)
		qfi := r.Bytes(nq)
		isDef, isDscp, dscp := r.Bool(), r.Bool(), r.Byte()
		err := c.BuildNotify5G_QOS_INFO(sess, qfi, isDef, isDscp, dscp)
		if err != nil {
			return builderCase{name: "BuildNotify5G_QOS_INFO", err: err}
		}
		if nq > 255 {
			return builderCase{name: "BuildNotify5G_QOS_INFO", expect: abs.Payload{Kind: 0}}
		}
		// TS 24.502 9.3.1.1: length | PDU session id | number of QFIs | QFI list | flags (DSCPI bit 1, DCSI bit 2) | [DSCP]
		data := []byte{0, sess, byte(nq)}
		data = append(data, qfi...)
		fl := byte(0)
		if isDscp {
			fl |= 0x01
		}
		if isDef {
			fl |= 0x02
		}
		data = append(data, fl)
		if isDscp {
			data = append(data, dscp)
		}
		if len(data) > 255 {
			return builderCase{name: "BuildNotify5G_QOS_INFO", expect: abs.Payload{Kind: 0}}
		}
		data[0] = byte(len(data))
		return builderCase{name: "BuildNotify5G_QOS_INFO", expect: abs.Payload{Kind: abs.PNotify, Notify: &abs.Notify{Proto: 0, Type: 55501, Data: data}}}
	case 20, 21:
		ip := []byte{r.Byte(), r.Byte(), r.Byte(), r.Byte()}
		if r.Chance(1, 4) {
			ip = []byte{byte(r.Pick(0, 255, 127, 10)), byte(r.Pick(0, 255)), byte(r.Pick(0, 255)), byte(r.Pick(0, 1, 255))}
		}
		s := fmt.Sprintf("%d.%d.%d.%d", ip[0], ip[1], ip[2], ip[3])
		if which == 20 {
			c.BuildNotifyNAS_IP4_ADDRESS(s)
			return builderCase{name: "BuildNotifyNAS_IP4_ADDRESS", expect: abs.Payload{Kind: abs.PNotify, Notify: &abs.Notify{Type: 55502, Data: ip}}}
		}
		c.BuildNotifyUP_IP4_ADDRESS(s)
		return builderCase{name: "BuildNotifyUP_IP4_ADDRESS", expect: abs.Payload{Kind: abs.PNotify, Notify: &abs.Notify{Type: 55504, Data: ip}}}
	case 22:
		port := uint16(1 + r.Intn(65535))
		if r.Chance(1, 4) {
			port = uint16(r.Pick(1, 255, 256, 65535, 20000))
		}
		c.BuildNotifyNAS_TCP_PORT(port)
		return builderCase{name: "BuildNotifyNAS_TCP_PORT", expect: abs.Payload{Kind: abs.PNotify, Notify: &abs.Notify{Type: 55506, Data: []byte{byte(port >> 8), byte(port)}}}}
	default:
		// the documented no-op inputs of the 3GPP helpers
		before := len(*c)
		c.BuildNotifyNAS_IP4_ADDRESS("")
		c.BuildNotifyUP_IP4_ADDRESS("")
		c.BuildNotifyNAS_TCP_PORT(0)
		if len(*c) != before {
			return builderCase{name: "3GPP-noop", viol: fmt.Sprintf("empty address / zero port appended %d payloads", len(*c)-before)}
		}
		return builderCase{name: "3GPP-noop", skip: true}
	}
}

func c19Builder(k *core.Case) {
	noiseFor(k)
	// prior container of 0..10 payloads
	np := k.R.Intn(11)
	var prior []abs.Payload
	kinds := gen.AllKinds()
	for i := 0; i < np; i++ {
		prior = append(prior, gen.Payload(k.R, kinds[k.R.Intn(len(kinds))]))
	}
	cont, err := bridge.BuildPayloads(prior)
	if err != nil {
		return
	}
	bseed := k.R.U64()
	if k.Index%5 == 2 {
		// the container already holds the very payload that is about to be built (same builder, same arguments)
		core.Try(func() { applyBuilder(core.NewRng(bseed), k.Index, &cont) })
		if (k.Index/24)%2 == 0 && len(cont) > 0 {
			// ... and the caller has since edited that payload in place (turned a Start into a Stop, changed a value)
			scribbleObject(cont[len(cont)-1])
			k.Count("built_payload_edited_before_the_same_builder_ran_again", 1)
		}
	}
	before := bridge.ObservePayloads(cont)
	k.Eval(1)
	var bc builderCase
	argSlices = nil
	pn := core.Try(func() { bc = applyBuilder(core.NewRng(bseed), k.Index, &cont) })
	bc.expect = bc.expect.Canon() // private copy of the expected value: the argument buffers are overwritten below
	w := M{"builder": bc.name, "prior_payloads": np}
	if pn != nil {
		k.Violate("panic", "builder: "+pn.Sig(), "builder panicked", panicData(pn, w))
		return
	}
	if bc.viol != "" {
		k.Violate("builder", "sub-builder-postcondition/"+bc.name, bc.name+": "+bc.viol, w)
		return
	}
	if bc.skip {
		k.Distinct("noop")
		return
	}
	after := bridge.ObservePayloads(cont)
	if bc.err != nil {
		// an error at build time: the container must not have been extended with a broken element... (only checked: earlier payloads untouched)
		if len(after) < len(before) || !abs.EqualPayloads(before, after[:len(before)]) {
			k.Violate("builder", "failed-builder-damaged-container/"+bc.name, bc.err.Error(), w)
			return
		}
		k.Count("error_at_build_"+bc.name, 1)
		k.Distinct("builderr|" + bc.name)
		return
	}
	mustFail := bc.expect.Kind == 0
	if !mustFail {
		w["expected"] = bc.expect.Canon()
	}
	if len(after) != len(before)+1 {
		if mustFail && len(after) == len(before) {
			k.Violate("builder", "oversize-silently-dropped/"+bc.name, "builder returned no error and appended nothing", w)
			return
		}
		k.Violate("builder", "container-grew-by-not-one/"+bc.name, fmt.Sprintf("container length %d -> %d", len(before), len(after)), w)
		return
	}
	if !abs.EqualPayloads(before, after[:len(before)]) {
		k.Violate("builder", "earlier-payloads-changed/"+bc.name, "", w)
		return
	}
	if !mustFail && after[len(before)].JSON() != bc.expect.JSON() {
		k.Violate("builder", "built-payload-differs-from-arguments/"+bc.name, after[len(before)].JSON()+" != "+bc.expect.JSON(), w)
		return
	}
	// the caller reuses / scrubs its argument buffers: the built payload (and the earlier ones) must not change
	if bc.name != "BuildDeletePayload" && !mustFail {
		for _, a := range argSlices {
			scribble(a)
		}
		again := bridge.ObservePayloads(cont)
		if len(again) != len(after) || !abs.EqualPayloads(before, again[:len(before)]) || again[len(before)].JSON() != bc.expect.JSON() {
			k.Violate("builder", "built-payload-shares-memory-with-arguments/"+bc.name, "overwriting the caller's argument buffers after the call changed the container", w)
			return
		}
		for _, a := range argSlices {
			scribble(a) // restore
		}
	}
	// encoding: either an error, or an encoding from which the independent parser recovers exactly the arguments
	var one message.IKEPayloadContainer
	one = append(one, cont[len(cont)-1])
	msg := &message.IKEMessage{IKEHeader: message.NewHeader(1, 2, message.IKE_AUTH, false, true, 3, 0, nil), Payloads: one}
	var wire []byte
	pn = core.Try(func() { wire, err = msg.Encode() })
	if pn != nil {
		k.Violate("panic", "encode-built: "+pn.Sig(), "Encode of the built payload panicked", panicData(pn, w))
		return
	}
	if err != nil {
		k.Count("error_at_encode_"+bc.name, 1)
		k.Distinct("encerr|" + bc.name)
		return
	}
	if mustFail {
		k.Violate("builder", "oversize-argument-encoded/"+bc.name, "an argument beyond the field limit was built and encoded without error", w)
		return
	}
	pm, perr := ref.ParseMsg(wire)
	if perr != nil {
		w["wire"] = core.HexClip(wire, 1024)
		k.Violate("builder", "built-payload-malformed-on-wire/"+bc.name+": "+classifyErr(perr), perr.Error(), w)
		return
	}
	if len(pm.Payloads) != 1 || pm.Payloads[0].JSON() != bc.expect.JSON() {
		w["wire"] = core.HexClip(wire, 1024)
		k.Violate("builder", "wire-layout-differs-from-specification/"+bc.name, fmt.Sprintf("independent parser sees %s, arguments say %s", clipS(pm.Payloads[0].JSON(), 800), clipS(bc.expect.JSON(), 800)), w)
		return
	}
	k.Count("built_and_encoded_"+bc.name, 1)
	k.Distinct("ok|" + bc.name + "|" + bc.expect.Shape())
	if k.WantSample() && len(wire) < 200 {
		w["wire"] = core.Hex(wire)
		k.Sample(w)
	}
}

func c19(c *core.Ctx) {
	c.Info("rule", "header case = NewHeader/NewMessage with random SPIs/exchange/message id and all 4 flag combinations: version 2.0, flags exactly {0x20 if response} | {0x08 if initiator}, accessors agree, encoded header matches; "+
		"builder case = one of 24 Build* functions / sub-builders applied to a container holding 0..10 prior payloads with boundary argument sizes {0,1,2,255,256,257,65531,65535,65536,70000}: container grows by exactly one, built payload observes to the arguments, earlier payloads unchanged, "+
		"then Encode: either an error or an encoding from which the independent strict parser recovers exactly the arguments (3GPP helpers: TS 24.502 layouts typed in the harness); distinct = (builder, outcome, structural shape)")
	c.Info("assumptions", "5G_QOS_INFO flag bits DSCPI = bit 1, DCSI = bit 2 (TS 24.502 9.3.1.1 as recalled; part of the trusted base) || whether a builder copies its slice arguments is recorded, not judged")
	c.Family("headers", c.N(8000, 200000), func(k *core.Case) {
		ispi, rspi, ex, mid := k.R.U64(), k.R.U64(), k.R.Byte(), k.R.U32()
		resp, init := k.Index%2 == 1, (k.Index/2)%2 == 1
		k.Eval(1)
		pn := core.Try(func() {
			h := message.NewHeader(ispi, rspi, ex, resp, init, mid, k.R.Byte(), nil)
			m := message.NewMessage(ispi, rspi, ex, resp, init, mid, nil)
			for i, x := range []*message.IKEHeader{h, m.IKEHeader} {
				wantFlags := uint8(0)
				if resp {
					wantFlags |= 0x20
				}
				if init {
					wantFlags |= 0x08
				}
				if x.MajorVersion != 2 || x.MinorVersion != 0 || x.InitiatorSPI != ispi || x.ResponderSPI != rspi || x.ExchangeType != ex || x.MessageID != mid ||
					x.Flags != wantFlags || x.IsResponse() != resp || x.IsInitiator() != init {
					k.Violate("builder", fmt.Sprintf("header-fields-wrong/ctor%d", i), fmt.Sprintf("%+v for response=%v initiator=%v", *x, resp, init), nil)
					return
				}
			}
			wire, err := m.Encode()
			if err != nil {
				k.Violate("builder", "new-message-not-encodable", err.Error(), nil)
				return
			}
			pm, perr := ref.ParseMsg(wire)
			if perr != nil || pm.ISPI != ispi || pm.RSPI != rspi || pm.Major != 2 || pm.Minor != 0 || pm.Exch != ex || pm.MsgID != mid || (pm.Flags&0x20 != 0) != resp || (pm.Flags&0x08 != 0) != init || pm.Flags&^0x28 != 0 {
				k.Violate("builder", "header-wire-wrong", fmt.Sprint(perr, pm), M{"wire": core.Hex(wire)})
				return
			}
			k.Distinct(fmt.Sprintf("hdr|%v|%v|%d", resp, init, ex&3))
		})
		if pn != nil {
			k.Violate("panic", "header: "+pn.Sig(), "panic", panicData(pn, nil))
		}
	})
	c.Family("builders", c.N(28000, 3000000), c19Builder)
	// one container variable used for several messages in a row (what Reset() exists for), while the messages built
	// earlier are still held (for retransmission): later building must leave them untouched
	c.Family("reset-sessions", c.N(700, 200000), func(k *core.Case) {
		type heldMsg struct {
			msg  *message.IKEMessage
			cp   message.IKEPayloadContainer // plain copy of the slice header
			want []abs.Payload
		}
		var held []heldMsg
		var cont message.IKEPayloadContainer
		verify := func(when string) bool {
			for hi, h := range held {
				for which, l := range []message.IKEPayloadContainer{h.msg.Payloads, h.cp} {
					got := bridge.ObservePayloads(l)
					if len(got) != len(h.want) || !abs.EqualPayloads(h.want, got) {
						k.Violate("history", "payloads-of-an-earlier-message-changed-after-Reset-and-rebuild", fmt.Sprintf("message %d (%s) %s", hi, []string{"NewMessage", "copy of the container"}[which], when), M{"expected": abs.Kinds(&abs.Msg{Payloads: h.want}), "got": abs.Kinds(&abs.Msg{Payloads: got})})
						return false
					}
				}
			}
			return true
		}
		rounds := 2 + k.R.Intn(3)
		pn := core.Try(func() {
			for round := 0; round < rounds; round++ {
				n := 1 + k.R.Intn(4)
				for i := 0; i < n; i++ {
					argSlices = nil
					applyBuilder(core.NewRng(k.R.U64()), k.R.Intn(1000), &cont)
					k.Eval(1)
					if !verify(fmt.Sprintf("after builder call %d of round %d", i, round)) {
						return
					}
				}
				m := message.NewMessage(1, 2, message.IKE_AUTH, false, true, uint32(round), cont)
				held = append(held, heldMsg{msg: m, cp: cont, want: bridge.ObservePayloads(cont)})
				cont.Reset()
				if len(cont) != 0 {
					k.Violate("builder", "Reset-leaves-payloads", fmt.Sprintf("%d payloads after Reset", len(cont)), nil)
					return
				}
				if !verify("after Reset") {
					return
				}
			}
			k.Count("reset_sessions", 1)
			k.Distinct(fmt.Sprintf("reset-session|%d", rounds))
		})
		if pn != nil {
			k.Violate("panic", "reset-session: "+pn.Sig(), "panic", panicData(pn, nil))
		}
	})
	// the same for the four sub-containers
	c.Family("reset-sub-containers", c.N(1500, 100000), func(k *core.Case) {
		pn := core.Try(func() {
			var pc message.ProposalContainer
			var tc message.TransformContainer
			var cc message.ConfigurationAttributeContainer
			var sc message.IndividualTrafficSelectorContainer
			type snap struct {
				name string
				get  func() string
				want string
			}
			var snaps []snap
			obsP := func(l message.ProposalContainer) string {
				return bridge.ObservePayload(&message.SecurityAssociation{Proposals: l}).JSON()
			}
			obsT := func(l message.TransformContainer) string {
				return bridge.ObservePayload(&message.SecurityAssociation{Proposals: message.ProposalContainer{&message.Proposal{EncryptionAlgorithm: l}}}).JSON()
			}
			obsC := func(l message.ConfigurationAttributeContainer) string {
				return bridge.ObservePayload(&message.Configuration{ConfigurationAttribute: l}).JSON()
			}
			obsS := func(l message.IndividualTrafficSelectorContainer) string {
				return bridge.ObservePayload(&message.TrafficSelectorInitiator{TrafficSelectors: l}).JSON()
			}
			for round := 0; round < 3; round++ {
				for i, n := 0, 1+k.R.Intn(3); i < n; i++ {
					pc.BuildProposal(k.R.Byte(), 3, k.R.Bytes(4))
					tc.BuildTransform(uint8(1+k.R.Intn(5)), k.R.U16(), nil, nil, nil)
					cc.BuildConfigurationAttribute(k.R.U16()&0x7fff, k.R.Bytes(k.R.Intn(6)))
					sc.BuildIndividualTrafficSelector(7, 0, 0, 65535, k.R.Bytes(4), k.R.Bytes(4))
					k.Eval(4)
					for _, sn := range snaps {
						if g := sn.get(); g != sn.want {
							k.Violate("history", "elements-held-from-before-Reset-changed/"+sn.name, "building into a reset sub-container changed a list handed out before the Reset", M{"want": clipS(sn.want, 600), "got": clipS(g, 600)})
							return
						}
					}
				}
				hp, ht, hc, hs := pc, tc, cc, sc
				snaps = append(snaps, snap{"ProposalContainer", func() string { return obsP(hp) }, obsP(hp)}, snap{"TransformContainer", func() string { return obsT(ht) }, obsT(ht)},
					snap{"ConfigurationAttributeContainer", func() string { return obsC(hc) }, obsC(hc)}, snap{"IndividualTrafficSelectorContainer", func() string { return obsS(hs) }, obsS(hs)})
				pc.Reset()
				tc.Reset()
				cc.Reset()
				sc.Reset()
				if len(pc)+len(tc)+len(cc)+len(sc) != 0 {
					k.Violate("builder", "sub-container-Reset-leaves-elements", "", nil)
					return
				}
			}
			k.Count("reset_sub_container_sessions", 1)
		})
		if pn != nil {
			k.Violate("panic", "reset-sub: "+pn.Sig(), "panic", panicData(pn, nil))
		}
	})
	// a gateway serving several UEs at once: every goroutine fills its OWN container, but the ARGUMENTS (the configured
	// NAS / UP addresses, ports, QoS values) are the same few values on all of them
	c.Family("builders-overlapping-with-shared-arguments", c.N(24, 2400), func(k *core.Case) {
		addrs := make([][4]byte, 3)
		for i := range addrs {
			copy(addrs[i][:], k.R.Bytes(4))
		}
		strs := make([]string, len(addrs))
		for i, a := range addrs {
			strs[i] = fmt.Sprintf("%d.%d.%d.%d", a[0], a[1], a[2], a[3])
		}
		port := k.R.U16() | 1
		var wg sync.WaitGroup
		bad := make([]string, 8)
		for g := 0; g < 8; g++ {
			wg.Add(1)
			go func(g int) {
				defer wg.Done()
				defer func() {
					if x := recover(); x != nil {
						bad[g] = fmt.Sprint("panic: ", x)
					}
				}()
				for n := 0; n < 200 && bad[g] == ""; n++ {
					var c message.IKEPayloadContainer
					i1, i2 := (n+g)%3, (n+g+1+n/3)%3
					c.BuildNotifyNAS_IP4_ADDRESS(strs[i1])
					c.BuildNotifyUP_IP4_ADDRESS(strs[i2])
					c.BuildNotifyNAS_TCP_PORT(port)
					got := bridge.ObservePayloads(c)
					if len(got) != 3 || got[0].Notify == nil || got[1].Notify == nil || got[2].Notify == nil ||
						got[0].Notify.Type != 55502 || !bytes.Equal(got[0].Notify.Data, addrs[i1][:]) ||
						got[1].Notify.Type != 55504 || !bytes.Equal(got[1].Notify.Data, addrs[i2][:]) ||
						got[2].Notify.Type != 55506 || !bytes.Equal(got[2].Notify.Data, []byte{byte(port >> 8), byte(port)}) {
						bad[g] = fmt.Sprintf("goroutine %d, round %d: NAS %s, UP %s, port %d built as %v", g, n, strs[i1], strs[i2], port, fmt.Sprint(len(got), " payloads"))
					}
				}
			}(g)
		}
		wg.Wait()
		k.Eval(8 * 200 * 3)
		for _, b := range bad {
			if b != "" {
				k.Violate("builder", "built-payload-differs-from-arguments/overlapping-builders", b, M{"addresses": strs})
				return
			}
		}
		k.Count("overlapping_builder_runs", 1)
	})
	c.Require("overlapping_builder_runs")
	c.Family("delete-aliasing-note", 1, func(k *core.Case) {
		var cont message.IKEPayloadContainer
		spis := []uint32{1, 2}
		cont.BuildDeletePayload(3, 4, 2, spis)
		spis[0] = 99
		if cont[0].(*message.Delete).SPIs[0] == 99 {
			k.Count("BuildDeletePayload_keeps_callers_slice(not judged)", 1)
		}
	})
	req := []string{"built_payload_edited_before_the_same_builder_ran_again", "reset_sessions", "reset_sub_container_sessions", "error_at_build_BuildEAP5GNAS", "error_at_build_BuildNotify5G_QOS_INFO", "error_at_encode_BuildNotification", "error_at_encode_BuildEAP5GNAS"}
	for _, b := range []string{"BuildNotification", "BuildCertificate", "BuildEncrypted", "BUildKeyExchange", "BuildIdentificationInitiator", "BuildIdentificationResponder", "BuildAuthentication", "BuildNonce",
		"BuildConfiguration", "BuildTrafficSelector", "BuildSecurityAssociation", "BuildDeletePayload", "BuildEAP", "BuildEAPSuccess", "BuildEAPfailure", "BuildEapExpanded", "BuildEAP5GStart", "BuildEAP5GNAS",
		"BuildNotify5G_QOS_INFO", "BuildNotifyNAS_IP4_ADDRESS", "BuildNotifyUP_IP4_ADDRESS", "BuildNotifyNAS_TCP_PORT"} {
		req = append(req, "built_and_encoded_"+b)
	}
	c.Require(req...)
}
