package props

import (
	"bytes"
	"crypto/sha256"
	"fmt"

	"github.com/free5gc/ike/message"
	"github.com/free5gc/ike/security"

	"verifharness/abs"
	"verifharness/core"
	"verifharness/gen"
	"verifharness/libsa"
	"verifharness/mon"
	"verifharness/ref"
)

func init() { core.Register("C02", c02) }

// posClass names the region of a protected message an offset lies in.
func posClass(off, total, icv int) string {
	switch {
	case off < 8:
		return "SPIi"
	case off < 16:
		return "SPIr"
	case off == 16:
		return "next-payload"
	case off == 17:
		return "version"
	case off == 18:
		return "exchange"
	case off == 19:
		return "flags"
	case off < 24:
		return "msg-id"
	case off < 28:
		return "length"
	case off < 32:
		return "SK-generic-header"
	case off < 48:
		return "IV"
	case off >= total-icv:
		return "ICV"
	}
	return "ciphertext"
}

var allPosClasses = []string{"SPIi", "SPIr", "next-payload", "version", "exchange", "flags", "msg-id", "length",
	"SK-generic-header", "IV", "ciphertext", "ICV"}

type c02env struct {
	k    *core.Case
	s    ref.Suite
	raw  libsa.Raw
	init bool // sender role
	pre  bool
	p    []byte   // genuine protected message
	m    *abs.Msg // its content
	kr   *security.IKESAKey
	tr   *mon.Trace
	// header objects the receiver holds from the first (genuine) presentation: one parsed from a private copy of the
	// genuine datagram, one filled in by hand.  Tampered datagrams whose 28 header octets are untouched are presented
	// with these objects (a receiver that parses the header once per exchange / per retransmission).
	held [2]*message.IKEHeader
}

func (e *c02env) witness(pp []byte, kind string) M {
	return M{"suite": e.s.Name(), "keys": e.raw.JSON(), "sender_initiator": e.init, "preparsed_header": e.pre,
		"genuine": core.Hex(e.p), "presented": core.HexClip(pp, 4096), "tamper": kind, "trace": e.tr.String()}
}

func hasDecrypt(ev []mon.Event) bool {
	for _, x := range ev {
		if x.Op == "Decrypt" {
			return true
		}
	}
	return false
}

// judge presents pp (derived from the genuine p by `kind`) to the receiver and applies the oracle.
func (e *c02env) judge(pp []byte, kind, pos string) {
	k := e.k
	e.tr.Reset()
	k.Eval(1)
	if len(pp) < 28 && e.pre {
		// ParseHeader refuses; DecodeDecrypt is never reached with a header "parsed from the same bytes"
		_, err, p := libUnprotect(pp, true, e.kr, !e.init)
		if p != nil {
			k.Violate("panic", "tampered: "+p.Sig(), "panic on a truncated datagram", panicData(p, e.witness(pp, kind)))
		} else if err == nil {
			k.Violate("accepted", "accepted/"+kind, "a datagram shorter than a header was accepted", e.witness(pp, kind))
		}
		return
	}
	var d *abs.Msg
	var err error
	var p *core.Panic
	genuine := bytes.Equal(pp, e.p)
	if e.pre && e.held[0] != nil && !genuine && len(pp) >= 28 && bytes.Equal(pp[:28], e.p[:28]) && hashBytes(pp)%2 == 0 {
		d, err, p = libUnprotectWith(pp, e.held[hashBytes(pp)>>4%2], e.kr, !e.init)
		k.Count("tampered_presented_with_a_held_header_object", 1)
		kind += "(held header)"
	} else {
		d, err, p = libUnprotect(pp, e.pre, e.kr, !e.init)
	}
	ev := e.tr.Snapshot()
	if p != nil {
		k.Violate("panic", "tampered: "+p.Sig(), "DecodeDecrypt panicked on a "+kind+" message", panicData(p, e.witness(pp, kind)))
		return
	}
	if genuine && e.pre && e.held[0] == nil && err == nil {
		// the receiver keeps header objects from this first acceptance and has used them once on the genuine datagram
		if h, herr := message.ParseHeader(append([]byte{}, e.p...)); herr == nil {
			e.held[0] = h
			e.held[1] = &message.IKEHeader{InitiatorSPI: h.InitiatorSPI, ResponderSPI: h.ResponderSPI, NextPayload: h.NextPayload, MajorVersion: h.MajorVersion,
				MinorVersion: h.MinorVersion, ExchangeType: h.ExchangeType, Flags: h.Flags, MessageID: h.MessageID}
			for _, hh := range e.held {
				if _, gerr, gp := libUnprotectWith(e.p, hh, e.kr, !e.init); gerr != nil || gp != nil {
					k.Violate("genuine-rejected", "genuine-rejected-with-held-header", fmt.Sprint(gerr, gp), e.witness(e.p, "genuine"))
					return
				}
			}
		}
	}
	if genuine {
		e.judgeGenuine(d, err, ev)
		return
	}
	noLongerSK := len(pp) > 16 && pp[16] != abs.PSK
	if noLongerSK {
		// handled as an unprotected datagram: same outcome as plain Decode, no key applied
		want, werr, wp := libDecode(pp)
		if wp != nil {
			k.Violate("panic", "plain-decode: "+wp.Sig(), "plain Decode panicked on the altered datagram", panicData(wp, e.witness(pp, kind)))
			return
		}
		if len(ev) != 0 {
			k.Violate("key-applied", "key-applied-to-non-SK-datagram", "the SA's cipher/MAC objects were used although the datagram does not start with SK", e.witness(pp, kind))
			return
		}
		if (werr == nil) != (err == nil) || (err == nil && !abs.Equal(want, d)) {
			k.Violate("mismatch", "non-SK-datagram-differs-from-plain-decode", fmt.Sprintf("DecodeDecrypt: %s; Decode: %s", errStr(err), errStr(werr)), e.witness(pp, kind))
			return
		}
		k.Count("handled_as_unprotected", 1)
		k.Distinct(fmt.Sprintf("%s|%v|%v|%s|%s|plain", e.s.Name(), e.init, e.pre, kind, pos))
		return
	}
	if err == nil {
		w := e.witness(pp, kind)
		w["decoded"] = msgJSON(d)
		k.Violate("accepted", "accepted/"+kind+"/"+pos, "a "+kind+" message ("+pos+") was accepted as genuine", w)
		return
	}
	if hasDecrypt(ev) {
		k.Violate("decrypt-before-verify", "decrypt-on-rejected/"+kind, "ciphertext of a rejected message reached the cipher: "+e.tr.String(), e.witness(pp, kind))
		return
	}
	k.Count("rejected_"+kind, 1)
	k.Count("pos_"+pos, 1)
	k.Distinct(fmt.Sprintf("%s|%v|%v|%s|%s", e.s.Name(), e.init, e.pre, kind, pos))
}

// judgeFront: the altered datagram no longer announces SK in its header but still CONTAINS the SK payload of the
// genuine message: whatever the receiver makes of it, it must not come back as an accepted message with the genuine
// (or any decrypted) content unless the checksum was verified - and the checksum cannot verify (header and length
// octets changed).  Outcome demanded: an error, and no Decrypt.
func (e *c02env) judgeFront(pp []byte, kind string) {
	k := e.k
	e.tr.Reset()
	k.Eval(1)
	d, err, p := libUnprotect(pp, e.pre, e.kr, !e.init)
	ev := e.tr.Snapshot()
	if p != nil {
		k.Violate("panic", "tampered: "+p.Sig(), "DecodeDecrypt panicked on a "+kind+" message", panicData(p, e.witness(pp, kind)))
		return
	}
	if hasDecrypt(ev) {
		k.Violate("decrypt-before-verify", "decrypt-on-altered/"+kind, "ciphertext of an altered message reached the cipher: "+e.tr.String(), e.witness(pp, kind))
		return
	}
	if err == nil {
		w := e.witness(pp, kind)
		w["decoded"] = msgJSON(d)
		k.Violate("accepted", "accepted/"+kind, "an altered message was accepted", w)
		return
	}
	k.Count("rejected_"+kind, 1)
	k.Distinct(fmt.Sprintf("%s|%v|%v|%s", e.s.Name(), e.init, e.pre, kind))
}

func (e *c02env) judgeGenuine(d *abs.Msg, err error, ev []mon.Event) {
	k := e.k
	if err != nil {
		k.Violate("unprotect-error", "genuine-rejected: "+classifyErr(err), errStr(err), e.witness(e.p, "genuine"))
		return
	}
	if !abs.Equal(e.m, d) {
		k.Violate("mismatch", "genuine-mismatch", abs.Diff(e.m, d), e.witness(e.p, "genuine"))
		return
	}
	// receiver is !init; it must use the SENDER's direction objects
	enc, mac := "Encr_r", "Integ_r"
	if e.init {
		enc, mac = "Encr_i", "Integ_i"
	}
	icv := e.s.ICVLen()
	bad := ""
	// which objects, in which order, over which octets — not how many calls: only the SENDER's direction objects,
	// exactly the ciphertext reaches the cipher, and only after a MAC (started with Reset) over the received octets
	// up to the checksum has been computed
	decAt, sumAt := -1, -1
	for i, x := range ev {
		if x.Obj != enc && x.Obj != mac {
			bad = fmt.Sprintf("event %d uses %s; this receiver may only use %s and %s", i, x, enc, mac)
			break
		}
		if x.Op == "Decrypt" && decAt < 0 {
			decAt = i
			if x.Hash != sha256.Sum256(e.p[32:len(e.p)-icv]) {
				bad = "cipher did not receive exactly IV | ciphertext"
			}
		}
		if x.Op == "Sum" && decAt < 0 {
			sumAt = i
		}
		if x.Op == "Encrypt" {
			bad = "Encrypt during unprotection"
		}
	}
	if bad == "" {
		if decAt < 0 {
			bad = "no Decrypt although the message was accepted"
		} else if sumAt < 0 {
			bad = "Decrypt before any checksum was computed"
		} else if data, clean, _ := mon.MACInput(ev[:sumAt+1], mac); !clean || !bytes.Equal(data, e.p[:len(e.p)-icv]) {
			bad = "MAC not computed (from a Reset) over the received octets up to the checksum"
		}
	}
	if bad != "" {
		k.Violate("trace", "receiver-trace: "+classifyErr(fmt.Errorf("%s", bad)), bad+" ["+e.tr.String()+"]", e.witness(e.p, "genuine"))
		return
	}
	k.Count("genuine_accepted", 1)
}

func c02Cell(k *core.Case, ci int, exhaustive bool) {
	s, init, pre := cell(ci)
	raw := libsa.RandomRaw(k.R, s)
	if k.Index%2 == 0 {
		raw = libsa.DerivedRaw(k.R, s) // keys the library derives itself
	}
	ks, err := libsa.NewKey(raw)
	if err != nil {
		k.Violate("setup", "NewKey failed", err.Error(), nil)
		return
	}
	// small message so that bit flips can be exhaustive
	var m *abs.Msg
	for {
		m = gen.Msg(k.R, gen.Opt{Protected: true, AllowEmpty: true, MaxPayloads: 3})
		inner, _, _ := ref.EncodeChain(m.Payloads, nil)
		if len(inner) <= 330 {
			break
		}
	}
	var p []byte
	var pn *core.Panic
	if k.Index%5 == 3 {
		// a genuine message whose checksum / ciphertext / IV begins or ends with 0x00 or 0xFF (searched)
		if src := searchSpecial(k, m, raw, init, (k.Index/5)%nSpecial); src != nil {
			mon.WithRand(src(), func() { p, err, pn = libProtect(m, ks, init) })
			k.Count("genuine_with_searched_crypto_values", 1)
		}
	}
	if p == nil && pn == nil && err == nil {
		p, err, pn = libProtect(m, ks, init)
	}
	if pn != nil || err != nil {
		k.Violate("protect-error", "cannot produce a genuine message", fmt.Sprint(err, pn), M{"msg": msgJSON(m)})
		return
	}
	kr, _ := libsa.NewKey(raw)
	e := &c02env{k: k, s: s, raw: raw, init: init, pre: pre, p: p, m: m, kr: kr}
	e.tr = libsa.Spy(kr)
	icv := s.ICVLen()

	e.judge(p, "genuine", "")

	// single-bit flips
	if exhaustive {
		for off := 0; off < len(p); off++ {
			for bit := 0; bit < 8; bit++ {
				pp := append([]byte{}, p...)
				pp[off] ^= 1 << uint(bit)
				e.judge(pp, "bitflip", posClass(off, len(p), icv))
			}
		}
		k.Count("exhaustive_bitflip_messages", 1)
		// every proper prefix
		for n := 0; n < len(p); n++ {
			e.judge(append([]byte{}, p[:n]...), "prefix", posClass(n, len(p), icv))
		}
	} else {
		for i := 0; i < 64; i++ {
			off := k.R.Intn(len(p))
			pp := append([]byte{}, p...)
			pp[off] ^= 1 << uint(k.R.Intn(8))
			e.judge(pp, "bitflip", posClass(off, len(p), icv))
		}
		for i := 0; i < 16; i++ {
			n := k.R.Intn(len(p))
			e.judge(append([]byte{}, p[:n]...), "prefix", posClass(n, len(p), icv))
		}
	}
	// the same with a fixed header length field (a careful attacker adjusts it)
	for i := 0; i < 24; i++ {
		n := 28 + k.R.Intn(len(p)-28)
		pp := append([]byte{}, p[:n]...)
		pp[24], pp[25], pp[26], pp[27] = byte(n>>24), byte(n>>16), byte(n>>8), byte(n)
		if n >= 32 {
			sk := n - 28
			pp[30], pp[31] = byte(sk>>8), byte(sk)
		}
		e.judge(pp, "prefix-lengths-fixed", posClass(n, len(p), icv))
	}
	// extensions
	for i := 0; i < 24; i++ {
		ext := k.R.Bytes(1 + k.R.Intn(64))
		if i%3 == 0 { // a well-formed extra payload
			body := k.R.Bytes(k.R.Intn(24))
			ext = append([]byte{0, 0, byte((len(body) + 4) >> 8), byte(len(body) + 4)}, body...)
		}
		pp := append(append([]byte{}, p...), ext...)
		if i%2 == 0 {
			n := len(pp)
			pp[24], pp[25], pp[26], pp[27] = byte(n>>24), byte(n>>16), byte(n>>8), byte(n)
		}
		e.judge(pp, "extension", "tail")
	}
	// insertions and deletions (the octets of the genuine message all survive, shifted): transport framings a
	// receiver might be tempted to strip - RFC 3948 Non-ESP marker, RFC 8229 length prefix / stream prefix, a
	// NAT-keepalive octet - plus arbitrary inserted / removed runs, with and without repaired length fields
	fixLens := func(pp []byte, at int) {
		if len(pp) >= at+28 {
			n := len(pp) - at
			pp[at+24], pp[at+25], pp[at+26], pp[at+27] = byte(n>>24), byte(n>>16), byte(n>>8), byte(n)
		}
	}
	ins := func(off int, what []byte) []byte {
		pp := append([]byte{}, p[:off]...)
		pp = append(pp, what...)
		return append(pp, p[off:]...)
	}
	for _, fr := range [][]byte{{0, 0, 0, 0}, {0, 0, 0, 0, 0, 0, 0, 0}, {byte((len(p) + 6) >> 8), byte(len(p) + 6), 0, 0, 0, 0}, {byte((len(p) + 2) >> 8), byte(len(p) + 2)},
		[]byte("IKETCP"), {0xff}, {0}, make([]byte, 28), append([]byte{}, p[:4]...), append([]byte{}, p[:28]...)} {
		e.judge(ins(0, fr), "insertion", "front")
		pp := ins(0, fr)
		fixLens(pp, 0)
		e.judge(pp, "insertion", "front")
		if len(fr) <= 8 {
			e.judge(ins(len(p), fr), "insertion", "tail")
		}
	}
	k.Count("transport_framings_tried", 1)
	for i := 0; i < 16; i++ {
		off := k.R.Intn(len(p) + 1)
		run := k.R.Bytes(k.R.Pick(1, 2, 4, 8, 16))
		if i%4 == 0 {
			run = make([]byte, len(run))
		}
		pp := ins(off, run)
		if i%2 == 0 {
			fixLens(pp, 0)
		}
		e.judge(pp, "insertion", posClass(minI(off, len(p)-1), len(p), icv))
		// deletion of a run
		n := k.R.Pick(1, 2, 4, 8, 16)
		if off+n <= len(p) {
			pp = append(append([]byte{}, p[:off]...), p[off+n:]...)
			if i%2 == 0 {
				fixLens(pp, 0)
			}
			e.judge(pp, "deletion", posClass(off, len(p), icv))
		}
	}
	// computed edits that keep a weak fingerprint (CRC-32 variants, CRC-64, XOR fold) of the datagram, of the datagram
	// without its checksum, or of the SK body equal to that of the genuine message - each presented directly after
	// the genuine message was accepted by this very key object (a receiver that "recognises" retransmissions)
	for fi, fp := range core.Fingerprints {
		if !exhaustive && (fi+k.Index)%3 != 0 {
			continue
		}
		for region := 0; region < 3; region++ {
			lo, hi := 0, len(p)
			switch region {
			case 1:
				hi = len(p) - icv
			case 2:
				lo = 28
			}
			pp := append([]byte{}, p...)
			// one altered bit (IV / ciphertext / header / checksum), then the patch somewhere else in the region
			o1 := lo + k.R.Intn(hi-lo)
			pp[o1] ^= byte(1 << uint(k.R.Intn(8)))
			var pos int
			switch k.R.Intn(3) {
			case 0:
				pos = hi - fp.Bytes // the last octets of the region (of the checksum, for region 0)
			case 1:
				pos = 32 + k.R.Intn(16-fp.Bytes+1) // inside the IV
			default:
				pos = lo + k.R.Intn(hi-lo-fp.Bytes+1)
			}
			w := core.Fingerprint{Name: fp.Name, Bits: fp.Bits, Bytes: fp.Bytes, F: func(b []byte) uint64 { return fp.F(b[lo:hi]) }}
			if !core.PatchToCollide(pp, pos, w, w.F(p)) || bytes.Equal(pp, p) {
				continue
			}
			e.judge(p, "genuine", "")
			e.judge(pp, "same-"+fp.Name, posClass(minI(o1, pos), len(p), icv))
			k.Count("forgeries_with_the_genuine_messages_weak_fingerprint", 1)
		}
	}
	// re-framing: the SK payload is cut short (length 4, 8, 20, ...) and the octets behind the cut are dressed up as a
	// further generic payload header that covers the rest, with the SK next-payload field pointing at a cleartext
	// type - every length field consistent, header untouched
	for _, cut := range []int{4, 5, 8, 12, 20, 20 + icv, 36} {
		for _, np := range []byte{0, 40, 41, 43, 33, 46, 200} {
			if 28+cut+4 > len(p) {
				continue
			}
			pp := append([]byte{}, p...)
			pp[28] = np
			pp[29] = 0
			pp[30], pp[31] = byte(cut>>8), byte(cut)
			rest := len(p) - 28 - cut
			o := 28 + cut
			pp[o], pp[o+1], pp[o+2], pp[o+3] = byte(k.R.Pick(0, 0, 40, 43)), 0, byte(rest>>8), byte(rest)
			if np == 0 {
				// chain ends after the shortened SK: the rest is trailing garbage under a correct total length
				pp[o] = 0
			}
			e.judge(pp, "reframed", "SK-generic-header")
		}
	}
	// an unsupported non-critical payload (header only, or with a short body) slipped in FRONT of the SK payload, the IKE
	// header's first-payload octet pointing at it, all lengths consistent; also with one ciphertext bit flipped
	for _, t := range []byte{49, 1, 32, 200, 255} {
		for _, bl := range []int{0, 1, 8} {
			ins := append([]byte{abs.PSK, 0, 0, byte(4 + bl)}, k.R.Bytes(bl)...)
			pp := append(append(append([]byte{}, p[:28]...), ins...), p[28:]...)
			pp[16] = t
			n := len(pp)
			pp[24], pp[25], pp[26], pp[27] = byte(n>>24), byte(n>>16), byte(n>>8), byte(n)
			e.judgeFront(pp, "unsupported-payload-slipped-in-front-of-SK")
			if len(pp) > 28+len(ins)+40 {
				pp2 := append([]byte{}, pp...)
				pp2[28+len(ins)+36] ^= 0x01
				e.judgeFront(pp2, "unsupported-payload-slipped-in-front-of-SK+bitflip")
			}
		}
	}
	k.Count("reframed_sk_payloads", 1)
	// random multi-octet edits
	for i := 0; i < 48; i++ {
		pp := append([]byte{}, p...)
		off := k.R.Intn(len(pp))
		n := 1 + k.R.Intn(8)
		changed := false
		for j := 0; j < n && off+j < len(pp); j++ {
			nb := k.R.Byte()
			if nb != pp[off+j] {
				changed = true
			}
			pp[off+j] = nb
		}
		if changed {
			e.judge(pp, "multi-octet", posClass(off, len(p), icv))
		}
	}
	// a second genuine message under the same keys: splices
	m2 := gen.Msg(k.R, gen.Opt{Protected: true, MaxPayloads: 2})
	if inner, _, _ := ref.EncodeChain(m2.Payloads, nil); len(inner) < 2000 {
		ks2, _ := libsa.NewKey(raw)
		if q, err, pn := libProtect(m2, ks2, init); err == nil && pn == nil {
			splice := func(pp []byte, what string) {
				if !bytes.Equal(pp, p) && !bytes.Equal(pp, q) {
					e.judge(pp, "splice-"+what, what)
				}
			}
			splice(append(append([]byte{}, p[:28]...), q[28:]...), "header+body")
			splice(append(append([]byte{}, q[:28]...), p[28:]...), "body+header")
			splice(append(append([]byte{}, p[:len(p)-icv]...), q[len(q)-icv:]...), "foreign-ICV")
			pp := append([]byte{}, p...)
			copy(pp[32:48], q[32:48])
			splice(pp, "foreign-IV")
			if len(p) >= 48+16+icv && len(q) >= 48+16+icv {
				pp = append([]byte{}, p...)
				copy(pp[48:64], q[48:64])
				splice(pp, "foreign-block")
			}
			if len(p) >= 48+32+icv {
				pp = append([]byte{}, p...)
				copy(pp[48:64], p[64:80])
				copy(pp[64:80], p[48:64])
				splice(pp, "swapped-blocks")
			}
			splice(append(append([]byte{}, p...), q[28:]...), "appended-SK")
		}
	}
	// hand-built SK payloads whose body is shorter than checksum + one block
	for n := 0; n <= icv+16; n++ {
		body := k.R.Bytes(n)
		tot := 28 + 4 + n
		pp := append([]byte{}, p[:28]...)
		pp[24], pp[25], pp[26], pp[27] = byte(tot>>24), byte(tot>>16), byte(tot>>8), byte(tot)
		pp = append(pp, p[28], 0, byte((4+n)>>8), byte(4+n))
		pp = append(pp, body...)
		e.judge(pp, "short-sk-body", "SK-generic-header")
	}
	// cross-key: unrelated key set of the same suite; and the key set with directions swapped
	for i := 0; i < 4; i++ {
		other := libsa.RandomRaw(k.R, s)
		if i == 3 {
			if raw.In == nil {
				continue
			}
			// the receiver's record was keyed for THIS SA before and has since been keyed for another one (recycled)
			other = libsa.RecycledFrom(k.R, raw)
			k.Count("cross_key_object_recycled_from_the_genuine_sa", 1)
		}
		if i == 2 {
			other = raw
			other.In = nil // edited by hand below: installed directly
			other.K.Ai, other.K.Ar = raw.K.Ar, raw.K.Ai
			other.K.Ei, other.K.Er = raw.K.Er, raw.K.Ei
		}
		if bytes.Equal(other.Dir(init).Ka, raw.Dir(init).Ka) {
			// degenerate corner (e.g. all-zero integrity keys twice): the integrity key the receiver
			// applies is the genuine one, so this is not a foreign key as far as the checksum goes
			continue
		}
		ko, _ := libsa.NewKey(other)
		e2 := *e
		e2.kr, e2.raw = ko, other
		e2.tr = libsa.Spy(ko)
		k.Eval(1)
		d, err, pn := libUnprotect(p, pre, ko, !init)
		_ = d
		if pn != nil {
			k.Violate("panic", "cross-key: "+pn.Sig(), "panic", panicData(pn, e2.witness(p, "cross-key")))
		} else if err == nil {
			k.Violate("accepted", "accepted/cross-key", "a genuine message was accepted under different SA keys", e2.witness(p, "cross-key"))
		} else if hasDecrypt(e2.tr.Snapshot()) {
			k.Violate("decrypt-before-verify", "decrypt-on-rejected/cross-key", e2.tr.String(), e2.witness(p, "cross-key"))
		} else {
			k.Count("rejected_cross-key", 1)
			k.Distinct(fmt.Sprintf("%s|%v|%v|cross-key%d", s.Name(), init, pre, i))
		}
	}
	// reflection: presented to the role that produced it
	if !(bytes.Equal(raw.K.Ai, raw.K.Ar)) {
		e.tr.Reset()
		k.Eval(1)
		_, err, pn := libUnprotect(p, pre, kr, init)
		if pn != nil {
			k.Violate("panic", "reflection: "+pn.Sig(), "panic", panicData(pn, e.witness(p, "reflection")))
		} else if err == nil {
			k.Violate("accepted", "accepted/reflection", "a message was accepted by the same role that produced it", e.witness(p, "reflection"))
		} else if hasDecrypt(e.tr.Snapshot()) {
			k.Violate("decrypt-before-verify", "decrypt-on-rejected/reflection", e.tr.String(), e.witness(p, "reflection"))
		} else {
			k.Count("rejected_reflection", 1)
			k.Distinct(fmt.Sprintf("%s|%v|%v|reflection", s.Name(), init, pre))
		}
	}
	// the genuine message must still be accepted afterwards
	e.judge(p, "genuine", "")
	if k.WantSample() {
		k.Sample(M{"suite": s.Name(), "sender_initiator": init, "preparsed_header": pre, "genuine": core.Hex(p), "msg": msgJSON(m),
			"tampers": "all single-bit flips, all proper prefixes, extensions, multi-octet edits, splices, short SK bodies, cross-key, reflection"})
	}
}

func c02(c *core.Ctx) {
	c.Info("rule", "per (suite, sender role, header mode) one genuine protected message (<= ~400 octets) is produced by the library; cases = the genuine message, EVERY single-bit flip, EVERY proper prefix, prefixes with repaired length fields, extensions, "+
		"multi-octet edits, splices with a second message under the same keys, SK bodies of 0..icv+16 octets, foreign key sets, swapped-direction keys, reflection; distinct = (suite, role, header mode, tamper kind, position class); "+
		"non-trivial = rejected with an error and no Decrypt event in the spy trace (or handled as unprotected with an empty trace). All 12 position classes must be observed.")
	c.Info("assumptions", "acceptance with HMAC-collision probability (<= 2^-96) is treated as never || spies wrap the exported interface-typed fields Encr_i/Encr_r/Integ_i/Integ_r")
	c.Family("cells-exhaustive", c.N(36*6, 36*2000), func(k *core.Case) { c02Cell(k, k.Index%36, true) })
	c.Family("cells-sampled", c.N(36*12, 36*6000), func(k *core.Case) { c02Cell(k, k.Index%36, false) })
	req := []string{"cross_key_object_recycled_from_the_genuine_sa", "reframed_sk_payloads", "forgeries_with_the_genuine_messages_weak_fingerprint", "genuine_with_searched_crypto_values", "tampered_presented_with_a_held_header_object", "transport_framings_tried", "rejected_insertion", "genuine_accepted", "exhaustive_bitflip_messages", "rejected_cross-key", "rejected_reflection", "handled_as_unprotected", "rejected_short-sk-body"}
	for _, pc := range allPosClasses {
		req = append(req, "pos_"+pc)
	}
	c.Require(req...)
}
