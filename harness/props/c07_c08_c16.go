package props

import (
	"bytes"
	"fmt"
	"hash"
	"math/big"
	"runtime"
	"strings"
	"sync"
	"sync/atomic"
	"time"

	"github.com/free5gc/ike/eap"
	"github.com/free5gc/ike/message"
	"github.com/free5gc/ike/security"
	"github.com/free5gc/ike/security/dh"
	"github.com/free5gc/ike/security/encr"
	"github.com/free5gc/ike/security/esn"
	"github.com/free5gc/ike/security/integ"
	"github.com/free5gc/ike/security/prf"

	"verifharness/abs"
	"verifharness/bridge"
	"verifharness/core"
	"verifharness/gen"
	"verifharness/libsa"
	"verifharness/mon"
	"verifharness/ref"
)

func init() {
	core.Register("C07", c07)
	core.Register("C08", c08)
	core.Register("C16", c16)
}

var lenClasses = []int{1, 2, 16, 32, 63, 64, 65, 128, 256, 512}

func lenClass(n int) string {
	switch {
	case n < 64:
		return "<64"
	case n == 64:
		return "=64"
	}
	return ">64"
}

func pickLen(r *core.Rng, idx int) int {
	if idx%3 == 0 {
		return r.Range(1, 512)
	}
	return lenClasses[r.Intn(len(lenClasses))]
}

func probeHash(h hash.Hash, msg []byte) []byte {
	h.Reset()
	h.Write(msg)
	return h.Sum(nil)
}

func newInfoKey(e, i, p, d int) *security.IKESAKey {
	return &security.IKESAKey{
		EncrInfo:  encr.StrToType(libsa.EncrNames[[]int{16, 24, 32}[e]]),
		IntegInfo: integ.StrToType(libsa.IntegNames[i]),
		PrfInfo:   prf.StrToType(libsa.PrfNames[p]),
		DhInfo:    dh.StrToType(libsa.DhNames[d]),
	}
}

func cmpKeys(k *security.IKESAKey, want ref.IKEKeys) string {
	for _, x := range []struct {
		n    string
		g, w []byte
	}{{"SK_d", k.SK_d, want.D}, {"SK_ai", k.SK_ai, want.Ai}, {"SK_ar", k.SK_ar, want.Ar}, {"SK_ei", k.SK_ei, want.Ei},
		{"SK_er", k.SK_er, want.Er}, {"SK_pi", k.SK_pi, want.Pi}, {"SK_pr", k.SK_pr, want.Pr}} {
		if !bytes.Equal(x.g, x.w) {
			return fmt.Sprintf("%s = %x (%d octets), reference %x (%d octets)", x.n, x.g, len(x.g), x.w, len(x.w))
		}
	}
	return ""
}

func c07Derive(k *core.Case) {
	noiseFor(k)
	ci := k.Index % 54
	e, i, p, d := ci%3, (ci/3)%3, (ci/9)%3, (ci/27)%2
	s := ref.Suite{EncKeyLen: []int{16, 24, 32}[e], Integ: i}
	nonce := k.R.Bytes(pickLen(k.R, k.Index))
	shared := k.R.Bytes(pickLen(k.R, k.Index/2))
	if k.Index%17 == 0 {
		shared = append(make([]byte, 100), shared...) // leading zero octets must count
	}
	var spii, spir uint64
	switch k.R.Intn(4) {
	case 0:
		spii, spir = 0, 0
	case 1:
		spii, spir = ^uint64(0), 1
	default:
		spii, spir = k.R.U64(), k.R.U64()
	}
	w := M{"encr": libsa.EncrNames[s.EncKeyLen], "integ": libsa.IntegNames[i], "prf": libsa.PrfNames[p], "dh": libsa.DhNames[d],
		"nonces": core.HexClip(nonce, 600), "shared": core.HexClip(shared, 700), "spi_i": spii, "spi_r": spir}
	key := newInfoKey(e, i, p, d)
	var err error
	k.Eval(1)
	// the arguments as a caller may hold them: in every third case nonces and secret lie back to back in ONE exchange
	// buffer with spare room behind (sub-slices with spare capacity); the function must treat them as read-only inputs
	argN, argS := append([]byte{}, nonce...), append([]byte{}, shared...) // the reference below works on nonce / shared, which the library never sees
	var exch, exchCopy []byte
	if k.Index%3 == 2 {
		exch = make([]byte, 0, len(nonce)+len(shared)+64)
		exch = append(append(exch, nonce...), shared...)
		exch = exch[:len(exch)+32]
		argN, argS = exch[:len(nonce)], exch[len(nonce):len(nonce)+len(shared)]
		exchCopy = append([]byte{}, exch...)
		w["layout"] = "nonces | secret | spare in one buffer"
	}
	pn := core.Try(func() { err = key.GenerateKeyForIKESA(argN, argS, spii, spir) })
	if exch != nil && !bytes.Equal(exch, exchCopy) {
		// not itself something C07 states; it matters when it changes the keys (judged below against the reference
		// computed from private copies of the inputs)
		k.Count("callers_buffer_modified_by_key_derivation(not judged by itself)", 1)
		w["callers_buffer_modified"] = true
	}
	if pn != nil {
		k.Violate("panic", "derive: "+pn.Sig(), "GenerateKeyForIKESA panicked", panicData(pn, w))
		return
	}
	if err != nil {
		k.Violate("derive-error", "derive-error: "+classifyErr(err), errStr(err), w)
		return
	}
	if k.Index%2 == 0 {
		pokeAccessors(key) // the application logs the new SA (String(), accessors) before using it
		k.Count("sa_logged_before_use", 1)
	}
	if k.Index%12 == 5 {
		// the application builds further cipher / MAC / PRF objects from the SA's key fields (for a worker, for a test
		// vector), drops them, and the garbage collector runs (finalizers included) before the SA is used
		func() {
			if c2, err := key.EncrInfo.NewCrypto(key.SK_ei); err == nil {
				_, _ = c2.Encrypt([]byte("x"))
			}
			_, _ = key.EncrInfo.NewCrypto(key.SK_er)
			_ = key.IntegInfo.Init(key.SK_ai)
			_ = key.IntegInfo.Init(key.SK_ar)
			_ = key.PrfInfo.Init(key.SK_d)
			_ = key.PrfInfo.Init(key.SK_pi)
		}()
		runtime.GC()
		runtime.Gosched()
		time.Sleep(2 * time.Millisecond) // finalizers run on their own goroutine after the collection
		runtime.GC()
		k.Count("objects_built_from_the_sa_keys_dropped_and_collected", 1)
	}
	want := ref.DeriveIKE(p, s, nonce, shared, spii, spir)
	if bad := cmpKeys(key, want); bad != "" {
		k.Violate("mismatch", "ike-key-mismatch", "derived key differs from prf+ reference: "+bad, w)
		return
	}
	// ready-made objects are keyed with exactly those keys
	probe := k.R.Bytes(k.R.Range(0, 200))
	for _, o := range []struct {
		n   string
		h   hash.Hash
		alg int
		key []byte
	}{{"Integ_i", key.Integ_i, i, want.Ai}, {"Integ_r", key.Integ_r, i, want.Ar}, {"Prf_d", key.Prf_d, p, want.D},
		{"Prf_i", key.Prf_i, p, want.Pi}, {"Prf_r", key.Prf_r, p, want.Pr}} {
		if o.h == nil {
			k.Violate("mismatch", "object-nil/"+o.n, o.n+" is nil after key generation", w)
			return
		}
		var got []byte
		if pn := core.Try(func() { got = probeHash(o.h, probe) }); pn != nil {
			k.Violate("panic", "object-probe: "+pn.Sig(), o.n, panicData(pn, w))
			return
		}
		if !bytes.Equal(got, ref.HMAC(o.alg, o.key, probe)) {
			k.Violate("mismatch", "object-keyed-wrong/"+o.n, o.n+" does not compute HMAC under its SK_* key", w)
			return
		}
	}
	for _, o := range []struct {
		n   string
		c   interface{ Encrypt([]byte) ([]byte, error) }
		key []byte
	}{{"Encr_i", key.Encr_i, want.Ei}, {"Encr_r", key.Encr_r, want.Er}} {
		if o.c == nil {
			k.Violate("mismatch", "object-nil/"+o.n, o.n+" is nil", w)
			return
		}
		ct, err := o.c.Encrypt(append([]byte{}, probe...))
		if err != nil || len(ct) < 32 {
			k.Violate("mismatch", "object-encrypt-failed/"+o.n, fmt.Sprint(err), w)
			return
		}
		pt, err := ref.CBCDecrypt(o.key, ct[:16], ct[16:])
		if err != nil || !bytes.HasPrefix(pt, probe) {
			k.Violate("mismatch", "object-keyed-wrong/"+o.n, o.n+" does not encrypt under its SK_e key", w)
			return
		}
	}
	// (a) keys handed out stay what they were when OTHER SAs (IKE and Child) are derived afterwards
	snap := [][]byte{append([]byte{}, key.SK_d...), append([]byte{}, key.SK_ai...), append([]byte{}, key.SK_ar...), append([]byte{}, key.SK_ei...),
		append([]byte{}, key.SK_er...), append([]byte{}, key.SK_pi...), append([]byte{}, key.SK_pr...)}
	other := newInfoKey(k.R.Intn(3), k.R.Intn(3), k.R.Intn(3), d)
	if err := other.GenerateKeyForIKESA(k.R.Bytes(k.R.Range(1, 90)), k.R.Bytes(k.R.Range(1, 300)), k.R.U64(), k.R.U64()); err == nil {
		ck := newChild(k.R.Intn(3), k.R.Intn(4))
		_ = ck.GenerateKeyForChildSA(other, k.R.Bytes(40))
	}
	for j, g := range [][]byte{key.SK_d, key.SK_ai, key.SK_ar, key.SK_ei, key.SK_er, key.SK_pi, key.SK_pr} {
		if !bytes.Equal(g, snap[j]) {
			k.Violate("history", "ike-keys-of-an-earlier-SA-changed-by-a-later-derivation", fmt.Sprintf("SK field #%d of the first SA changed after another SA was derived", j), w)
			return
		}
	}
	k.Count("held_sa_keys_rechecked", 1)
	// (b) the same object keyed a second time (e.g. an IKE_SA_INIT retry): keys AND ready-made objects follow the new inputs
	if k.Index%2 == 1 {
		nonce2, shared2 := k.R.Bytes(pickLen(k.R, k.Index/3)), k.R.Bytes(pickLen(k.R, k.Index/5))
		spii2, spir2 := k.R.U64(), k.R.U64()
		if err := key.GenerateKeyForIKESA(append([]byte{}, nonce2...), append([]byte{}, shared2...), spii2, spir2); err != nil {
			k.Violate("derive-error", "rekey-same-object-error", err.Error(), w)
			return
		}
		want2 := ref.DeriveIKE(p, s, nonce2, shared2, spii2, spir2)
		if bad := cmpKeys(key, want2); bad != "" {
			k.Violate("mismatch", "ike-key-mismatch/second-keying-of-one-object", bad, w)
			return
		}
		probe2 := k.R.Bytes(33)
		for _, o := range []struct {
			n   string
			h   hash.Hash
			alg int
			key []byte
		}{{"Integ_i", key.Integ_i, i, want2.Ai}, {"Integ_r", key.Integ_r, i, want2.Ar}, {"Prf_d", key.Prf_d, p, want2.D}, {"Prf_i", key.Prf_i, p, want2.Pi}, {"Prf_r", key.Prf_r, p, want2.Pr}} {
			if o.h == nil || !bytes.Equal(probeHash(o.h, probe2), ref.HMAC(o.alg, o.key, probe2)) {
				k.Violate("mismatch", "object-keyed-wrong-after-second-keying/"+o.n, o.n+" still works under the keys of the first keying", w)
				return
			}
		}
		for _, o := range []struct {
			n   string
			c   interface{ Encrypt([]byte) ([]byte, error) }
			key []byte
		}{{"Encr_i", key.Encr_i, want2.Ei}, {"Encr_r", key.Encr_r, want2.Er}} {
			ct, err := o.c.Encrypt(append([]byte{}, probe2...))
			if err != nil {
				k.Violate("mismatch", "object-encrypt-failed/"+o.n, err.Error(), w)
				return
			}
			if pt, err := ref.CBCDecrypt(o.key, ct[:16], ct[16:]); err != nil || !bytes.HasPrefix(pt, probe2) {
				k.Violate("mismatch", "object-keyed-wrong-after-second-keying/"+o.n, o.n+" still encrypts under the key of the first keying", w)
				return
			}
		}
		k.Count("same_object_keyed_twice", 1)
	}
	k.Distinct(fmt.Sprintf("%d%d%d%d|n%s|s%s", e, i, p, d, lenClass(len(nonce)), lenClass(len(shared))))
	k.Count("prf_"+libsa.PrfNames[p], 1)
	if k.WantSample() {
		w["SK_d"] = core.Hex(key.SK_d)
		k.Sample(w)
	}
}

func c07TwoParty(k *core.Case) {
	noiseFor(k)
	ci := k.Index % 54
	e, i, p, d := ci%3, (ci/3)%3, (ci/9)%3, (ci/27)%2
	w := M{"encr": e, "integ": i, "prf": p, "dh": d}
	k.Eval(1)
	pn := core.Try(func() {
		ini := newInfoKey(e, i, p, d)
		if k.Index%5 == 3 {
			// the SA record made an offer with another key size of the same cipher before (NO_PROPOSAL_CHOSEN retry, a
			// template adjusted per peer): only EncrInfo changes between the two ToProposal calls
			mine := ini.EncrInfo
			ini.EncrInfo = newInfoKey((e+1+k.Index/5%2)%3, i, p, d).EncrInfo
			_, _ = ini.ToProposal()
			if k.Index/10%2 == 1 {
				cp := *ini
				ini = &cp
			}
			ini.EncrInfo = mine
			k.Count("sa_record_offered_another_key_size_before", 1)
		}
		secret, err := security.GenerateRandomNumber()
		if err != nil {
			k.Violate("error", "GenerateRandomNumber-error", err.Error(), w)
			return
		}
		if k.Index%3 == 1 {
			// force a shared secret with leading zero octets (g^ir = 1 or 2^r for a small r): RFC 7296 2.14 feeds the
			// fixed-length value, leading zeros included, into the prf
			secret = big.NewInt(int64(k.Index / 3 % 2))
			w["initiator_exponent"] = secret.String()
		}
		pubI := ini.DhInfo.GetPublicValue(secret)
		// the application has prepared other offers before from what the library handed it (e.g. the AES-256 variant of
		// the AES-128 transform): those objects are the caller's to edit
		if k.Index%2 == 0 {
			for _, other := range []*security.IKESAKey{ini, newInfoKey((e+1)%3, i, p, d)} {
				if op, oerr := other.ToProposal(); oerr == nil {
					for _, t := range op.EncryptionAlgorithm {
						t.AttributeValue = uint16(k.R.Pick(128, 192, 256))
					}
					scribbleProposal(op)
				}
			}
			k.Count("offers_prepared_from_returned_transforms_before", 1)
		}
		// proposal travels through the wire
		prop, err := ini.ToProposal()
		if err != nil {
			k.Violate("error", "ToProposal-error", err.Error(), w)
			return
		}
		var pc message.IKEPayloadContainer
		sa := pc.BuildSecurityAssociation()
		prop.ProposalNumber = 1
		if k.Index%4 == 2 {
			// an IKE SA rekey proposal carries the proposer's new 8-octet SPI (RFC 7296 2.18); the key derivation goes by
			// the SPI ARGUMENTS
			prop.SPI = k.R.Bytes(8)
			k.Count("two_party_proposal_carries_an_spi", 1)
		}
		sa.Proposals = append(sa.Proposals, prop)
		msg := message.NewMessage(k.R.U64(), 0, message.IKE_SA_INIT, false, true, 0, pc)
		wire, err := msg.Encode()
		if err != nil {
			k.Violate("error", "encode-proposal-error", err.Error(), w)
			return
		}
		back := new(message.IKEMessage)
		if err = back.Decode(wire); err != nil {
			k.Violate("error", "decode-proposal-error", err.Error(), w)
			return
		}
		rprop := back.Payloads[0].(*message.SecurityAssociation).Proposals[0]
		nonces := k.R.Bytes(k.R.Range(32, 96))
		spii, spir := msg.InitiatorSPI, k.R.U64()
		var resp *security.IKESAKey
		var pubR []byte
		if k.Index%6 == 4 {
			// the responder's random stream is chosen so that the FIRST exponent it draws gives a public value with a
			// leading zero octet (about one exchange in 256): searched over streams with the group arithmetic of math/big
			pmod := []*big.Int{ref.P1024, ref.P2048}[d]
			limit := 1500
			if d == 1 {
				limit = 700
			}
			for t := 0; t < limit; t++ {
				seed := k.R.U64()
				var x *big.Int
				var xerr error
				mon.WithRand(core.NewRng(seed), func() { x, xerr = security.GenerateRandomNumber() })
				if xerr != nil {
					break
				}
				if pv := new(big.Int).Exp(big.NewInt(2), x, pmod); pv.BitLen() <= pmod.BitLen()-8 {
					mon.WithRand(core.NewRng(seed), func() { resp, pubR, err = security.NewIKESAKey(rprop, pubI, nonces, spii, spir) })
					k.Count("responder_public_value_with_leading_zero_octet", 1)
					w["responder_random_stream_seed"] = seed
					break
				}
			}
		}
		if resp == nil && err == nil {
			resp, pubR, err = security.NewIKESAKey(rprop, pubI, nonces, spii, spir)
		}
		if err != nil || resp == nil {
			k.Violate("error", "NewIKESAKey-error", fmt.Sprint(err), w)
			return
		}
		grp := []int{128, 256}[d]
		if len(pubI) != grp || len(pubR) != grp {
			k.Violate("mismatch", "public-value-length", fmt.Sprintf("%d / %d octets for group size %d", len(pubI), len(pubR), grp), w)
			return
		}
		if k.Index%4 == 3 {
			// the initiator tried the other group with the same exponent object in the meantime (INVALID_KE_PAYLOAD round)
			_ = dh.StrToType(libsa.DhNames[1-d]).GetPublicValue(secret)
			k.Count("initiator_exponent_used_with_the_other_group_in_between", 1)
		}
		sharedObj := ini.DhInfo.GetSharedKey(secret, new(big.Int).SetBytes(pubR))
		shared := append([]byte{}, sharedObj...) // private copy for the reference: what the keying call does to the slice it is handed is not C07's subject
		if err = ini.GenerateKeyForIKESA(nonces, sharedObj, spii, spir); err != nil {
			k.Violate("error", "initiator-derive-error", err.Error(), w)
			return
		}
		if k.Index%2 == 1 {
			pokeAccessors(ini)
			pokeAccessors(resp)
		}
		want := ref.IKEKeys{D: resp.SK_d, Ai: resp.SK_ai, Ar: resp.SK_ar, Ei: resp.SK_ei, Er: resp.SK_er, Pi: resp.SK_pi, Pr: resp.SK_pr}
		if bad := cmpKeys(ini, want); bad != "" {
			k.Violate("mismatch", "two-party-keys-differ", "initiator and responder derived different keys: "+bad, w)
			return
		}
		// and against the reference, from the shared secret
		s := ref.Suite{EncKeyLen: []int{16, 24, 32}[e], Integ: i}
		if bad := cmpKeys(resp, ref.DeriveIKE(p, s, nonces, shared, spii, spir)); bad != "" {
			k.Violate("mismatch", "two-party-vs-reference", bad, w)
			return
		}
		if resp.EncrInfo.GetKeyLength() != s.EncKeyLen || resp.IntegInfo.TransformID() != ini.IntegInfo.TransformID() ||
			resp.PrfInfo.TransformID() != ini.PrfInfo.TransformID() || resp.DhInfo.TransformID() != ini.DhInfo.TransformID() {
			k.Violate("mismatch", "negotiated-algorithms-differ", "responder built other algorithms than proposed", w)
			return
		}
		// mutually usable
		m := gen.Msg(k.R, gen.Opt{Protected: true, MaxPayloads: 3})
		for _, dir := range []bool{true, false} {
			snd, rcv := ini, resp
			if !dir {
				snd, rcv = resp, ini
			}
			b, err, pp := libProtect(m, snd, dir)
			if err != nil || pp != nil {
				k.Violate("mismatch", "two-party-protect-failed", fmt.Sprint(err, pp), w)
				return
			}
			got, err, pp := libUnprotect(b, false, rcv, !dir)
			if err != nil || pp != nil || !abs.Equal(m, got) {
				k.Violate("mismatch", "two-party-not-mutually-usable", fmt.Sprint(err, pp), w)
				return
			}
		}
		scribbleProposal(prop) // both ends recycle the proposal objects they own
		scribbleProposal(rprop)
		k.Distinct(fmt.Sprintf("two-party|%d%d%d%d|lz%v", e, i, p, d, shared[0] == 0))
		k.Count("two_party_runs", 1)
		if shared[0] == 0 {
			k.Count("two_party_shared_secret_with_leading_zeros", 1)
		}
	})
	if pn != nil {
		k.Violate("panic", "two-party: "+pn.Sig(), "panic in the two-party run", panicData(pn, w))
	}
}

func c07(c *core.Ctx) {
	c.Info("rule", "derive case = (encr, integ, prf, dh) cell of the 54 x (nonce length class, shared-secret length class, SPI corner); SK_* compared with reference prf+ slices and all 7 ready-made objects probed; "+
		"two-party case = initiator exponent + public value, proposal through SA payload wire form, responder NewIKESAKey, initiator GetSharedKey + GenerateKeyForIKESA, keys compared and messages exchanged both ways; distinct = cell x length classes")
	c.Info("assumptions", "reference HMAC/prf+ in /verif/harness/ref; lengths table typed from RFC 7296/4868/2404/2403")
	c.Family("derive", c.N(54*100, 54*100000), c07Derive)
	c.Family("two-party", c.N(162, 30000), c07TwoParty)
	// shared secrets (same nonces, SPIs, algorithms) that agree in a weak fingerprint
	c.Family("colliding-secrets", c.N(54, 5400), func(k *core.Case) {
		ci := k.Index % 54
		e, i, p, d := ci%3, (ci/3)%3, (ci/9)%3, (ci/27)%2
		st := ref.Suite{EncKeyLen: []int{16, 24, 32}[e], Integ: i}
		fp := core.Fingerprints[k.Index%len(core.Fingerprints)]
		n := []int{128, 256}[d]
		s1 := k.R.Bytes(n)
		s2 := append([]byte{}, s1...)
		s2[k.R.Intn(n)] ^= 1
		if !core.PatchToCollide(s2, k.R.Intn(n-fp.Bytes+1), fp, fp.F(s1)) || bytes.Equal(s1, s2) {
			return
		}
		nonce, spii, spir := k.R.Bytes(64), k.R.U64(), k.R.U64()
		for round, sh := range [][]byte{s1, s2, s1} {
			k.Eval(1)
			key := newInfoKey(e, i, p, d)
			if err := key.GenerateKeyForIKESA(append([]byte{}, nonce...), append([]byte{}, sh...), spii, spir); err != nil {
				k.Violate("derive-error", "derive-error/colliding-secrets", err.Error(), nil)
				return
			}
			if bad := cmpKeys(key, ref.DeriveIKE(p, st, nonce, sh, spii, spir)); bad != "" {
				k.Violate("mismatch", "ike-key-mismatch/secret-collides-with-an-earlier-one/"+fp.Name, fmt.Sprintf("derivation %d: %s", round+1, bad), M{"secret1": core.Hex(s1), "secret2": core.Hex(s2)})
				return
			}
		}
		k.Count("colliding_secret_pairs", 1)
	})
	c.Require("initiator_exponent_used_with_the_other_group_in_between", "two_party_proposal_carries_an_spi", "objects_built_from_the_sa_keys_dropped_and_collected", "responder_public_value_with_leading_zero_octet", "colliding_secret_pairs", "sa_logged_before_use", "offers_prepared_from_returned_transforms_before", "two_party_runs", "two_party_shared_secret_with_leading_zeros", "held_sa_keys_rechecked", "same_object_keyed_twice")
}

// ---------------------------------------------------------------------------
// C08

var childIntegLen = []int{0, 16, 20, 32}

// newChild: the fields a derivation must not depend on (SPI, ESN, PFS group) cycle through a small pool, so that SPIs
// are reused across derivations with different nonces, as they are over the life of a gateway.
var childSeq uint32

func newChild(e, i int) *security.ChildSAKey {
	ck := &security.ChildSAKey{EncrKInfo: encr.StrToKType(libsa.EncrNames[[]int{16, 24, 32}[e]])}
	if i > 0 {
		ck.IntegKInfo = integ.StrToKType(libsa.IntegNames[i-1])
	}
	n := atomic.AddUint32(&childSeq, 1)
	ck.SPI = []uint32{0, 1, 0xc0ffee01, 0xffffffff, 0x80000000, 7}[n%6]
	if n%3 == 0 {
		ck.EsnInfo, _ = esn.StrToType([]string{"ESN_DISABLE", "ESN_ENABLE"}[n/3%2])
	}
	if n%5 == 0 {
		ck.DhInfo = dh.StrToType(libsa.DhNames[n/5%2])
	}
	return ck
}

func childCmp(ck *security.ChildSAKey, p int, skd, nonces []byte, e, i int) string {
	ei, ai, er, ar := ref.DeriveChild(p, skd, nonces, []int{16, 24, 32}[e], childIntegLen[i])
	for _, x := range []struct {
		n    string
		g, w []byte
	}{{"e_i2r", ck.InitiatorToResponderEncryptionKey, ei}, {"a_i2r", ck.InitiatorToResponderIntegrityKey, ai},
		{"e_r2i", ck.ResponderToInitiatorEncryptionKey, er}, {"a_r2i", ck.ResponderToInitiatorIntegrityKey, ar}} {
		if !bytes.Equal(x.g, x.w) {
			return fmt.Sprintf("%s = %x, reference %x", x.n, x.g, x.w)
		}
	}
	return ""
}

func c08One(k *core.Case) {
	noiseFor(k)
	ci := k.Index % 36
	p, e, i := ci%3, (ci/3)%3, (ci/9)%4
	raw := libsa.RandomRaw(k.R, ref.Suites[k.R.Intn(9)])
	raw.Prf = p
	raw.In = nil
	raw.K.D = k.R.Bytes(ref.PrfKeyLen(p))
	ike, err := libsa.NewKey(raw)
	if err != nil {
		k.Violate("setup", "NewKey failed", err.Error(), nil)
		return
	}
	n := k.R.Range(0, 80)
	switch k.Index % 5 {
	case 0:
		n = k.R.Pick(0, 0, 1, 2, 63, 64, 65, 512)
	case 1:
		n = k.R.Range(0, 512)
	}
	nonces := k.R.Bytes(n)
	w := M{"prf": libsa.PrfNames[p], "encr_keylen": []int{16, 24, 32}[e], "integ_keylen": childIntegLen[i], "SK_d": core.Hex(raw.K.D), "nonces": core.HexClip(nonces, 600)}
	ck := newChild(e, i)
	k.Eval(1)
	pn := core.Try(func() { err = ck.GenerateKeyForChildSA(ike, nonces) })
	if pn != nil {
		k.Violate("panic", "child: "+pn.Sig(), "GenerateKeyForChildSA panicked", panicData(pn, w))
		return
	}
	if err != nil {
		k.Violate("derive-error", "child-derive-error: "+classifyErr(err), errStr(err), w)
		return
	}
	if bad := childCmp(ck, p, raw.K.D, nonces, e, i); bad != "" {
		k.Violate("mismatch", "child-key-mismatch", bad, w)
		return
	}
	k.Distinct(fmt.Sprintf("%d%d%d|n%s", p, e, i, lenClass(n+1)))
	if n == 0 {
		k.Count("empty_nonces", 1)
	}
	if k.WantSample() {
		w["e_i2r"] = core.Hex(ck.InitiatorToResponderEncryptionKey)
		k.Sample(w)
	}
}

// history: derivations 1..N on ONE IKESAKey, interleaved with protect/unprotect, equal fresh-copy results
func c08History(k *core.Case) {
	s := ref.Suites[k.Index%9]
	raw := libsa.RandomRaw(k.R, s)
	long, err := libsa.NewKey(raw)
	if err != nil {
		k.Violate("setup", "NewKey failed", err.Error(), nil)
		return
	}
	if k.Index%5 == 3 {
		// hand-keyed the way the library's own tests do it: the keyed PRF object is installed, the SK_d field stays empty
		long.SK_d = nil
		k.Count("hand_keyed_ike_sa_with_empty_SK_d_field", 1)
	}
	steps := k.R.Pick(5, 20, 100)
	type heldChild struct {
		ck     *security.ChildSAKey
		skd    []byte
		nonces []byte
		e, i   int
		step   int
	}
	var heldChildren []heldChild
	templates := map[int]*security.ChildSAKey{}
	for st := 1; st <= steps; st++ {
		if k.R.Chance(1, 3) { // interleave traffic on the same SA
			m := gen.Msg(k.R, gen.Opt{Protected: true, MaxPayloads: 2})
			if b, err, pn := libProtect(m, long, k.R.Bool()); err == nil && pn == nil && k.R.Bool() {
				peer, _ := libsa.NewKey(raw)
				_ = peer
				libUnprotect(b, false, long, k.R.Bool())
			}
		}
		if k.R.Chance(1, 8) {
			// the IKE SA object is keyed again (IKE_SA_INIT retry / object reuse): later Child SAs follow the NEW SK_d
			if err := long.GenerateKeyForIKESA(k.R.Bytes(k.R.Range(1, 80)), k.R.Bytes(k.R.Range(1, 260)), k.R.U64(), k.R.U64()); err == nil {
				raw.In = nil
				raw.K.D, raw.K.Ai, raw.K.Ar = append([]byte{}, long.SK_d...), append([]byte{}, long.SK_ai...), append([]byte{}, long.SK_ar...)
				raw.K.Ei, raw.K.Er = append([]byte{}, long.SK_ei...), append([]byte{}, long.SK_er...)
				raw.K.Pi, raw.K.Pr = append([]byte{}, long.SK_pi...), append([]byte{}, long.SK_pr...)
				k.Count("ike_sa_rekeyed_in_history", 1)
			}
		}
		if k.R.Chance(1, 6) {
			pokeAccessors(long)
			for _, h := range heldChildren[maxI(0, len(heldChildren)-3):] {
				pokeAccessors(h.ck)
			}
		}
		e, i := k.R.Intn(3), k.R.Intn(4)
		nonces := k.R.Bytes(k.R.Range(0, 100))
		fresh, _ := libsa.NewKey(raw)
		a, b := newChild(e, i), newChild(e, i)
		// where the application's ChildSAKey object comes from: a literal, the proposal constructor, or a value copy of
		// a template built once per algorithm choice by the proposal constructor
		if i > 0 {
			switch k.R.Intn(3) {
			case 1:
				if pr, perr := newChild(e, i).ToProposal(); perr == nil {
					if c2, cerr := security.NewChildSAKeyByProposal(pr); cerr == nil && c2 != nil {
						a = c2
						k.Count("child_object_from_proposal_constructor", 1)
					}
				}
			case 2:
				tk := e*4 + i
				if templates[tk] == nil {
					if pr, perr := newChild(e, i).ToProposal(); perr == nil {
						templates[tk], _ = security.NewChildSAKeyByProposal(pr)
					}
				}
				if templates[tk] != nil {
					cpy := *templates[tk]
					a = &cpy
					k.Count("child_object_copied_from_a_template", 1)
				}
			}
		}
		if k.R.Chance(1, 3) {
			// the offer for this Child SA is built from the very object that is keyed afterwards
			_, _ = a.ToProposal()
			pokeAccessors(a)
			k.Count("child_object_made_its_offer_before_being_keyed", 1)
		}
		var e1, e2 error
		k.Eval(1)
		pn := core.Try(func() {
			e1 = a.GenerateKeyForChildSA(long, nonces)
			e2 = b.GenerateKeyForChildSA(fresh, nonces)
		})
		w := M{"suite": s.Name(), "keys": raw.JSON(), "step": st, "nonces": core.Hex(nonces), "encr": e, "integ": i}
		if pn != nil {
			k.Violate("panic", "child-history: "+pn.Sig(), "panic", panicData(pn, w))
			return
		}
		if e1 != nil || e2 != nil {
			k.Violate("derive-error", "child-history-error", fmt.Sprint(e1, e2), w)
			return
		}
		if bad := childCmp(a, raw.Prf, raw.K.D, nonces, e, i); bad != "" {
			k.Violate("mismatch", "child-key-depends-on-history", fmt.Sprintf("derivation #%d on a long-lived IKE SA: %s", st, bad), w)
			return
		}
		if bad := childCmp(b, raw.Prf, raw.K.D, nonces, e, i); bad != "" {
			k.Violate("mismatch", "child-key-mismatch", "fresh copy: "+bad, w)
			return
		}
		heldChildren = append(heldChildren, heldChild{a, append([]byte{}, raw.K.D...), nonces, e, i, st})
		// Child SAs established earlier keep their keys
		for _, h := range heldChildren {
			if st%10 != 0 && st != steps && h.step != st-1 {
				continue // everything is re-verified every 10th step and at the end, the previous one every step
			}
			if bad := childCmp(h.ck, raw.Prf, h.skd, h.nonces, h.e, h.i); bad != "" {
				k.Violate("history", "keys-of-an-earlier-child-sa-changed", fmt.Sprintf("Child SA of step %d inspected after step %d: %s", h.step, st, bad), w)
				return
			}
		}
	}
	k.Count("earlier_child_sas_rechecked", 1)
	k.Distinct(fmt.Sprintf("history|%s|%d", s.Name(), steps))
	k.Count(fmt.Sprintf("histories_len_%d", steps), 1)
}

func c08(c *core.Ctx) {
	c.Info("rule", "case = (prf, ESP encr key size, integ in {none,MD5,SHA1,SHA2}) x nonce length 0..512, four keys compared with reference prf+(SK_d, Ni|Nr) slices in the order e_i2r,a_i2r,e_r2i,a_r2i; "+
		"history case = 5/20/100 derivations on one IKESAKey interleaved with protect/unprotect, each compared with the reference and with a freshly built copy; distinct = cell x nonce length class / history length x suite")
	c.Info("assumptions", "each derivation uses a new ChildSAKey (the method appends to the receiver's slices; reusing a ChildSAKey is outside the property)")
	c.Family("derive", c.N(20000, 30000000), c08One)
	c.Family("history", c.N(108, 100000), c08History)
	// both ends of one IKE SA in one process (a gateway and a UE simulator, two workers serving the same SA from
	// replicated state): DISTINCT IKESAKey objects holding EQUAL keys, each used by its own goroutine only
	c.Family("equal-keys-in-parallel", c.N(18, 2000), func(k *core.Case) {
		s := ref.Suites[k.Index%9]
		raw := libsa.RandomRaw(k.R, s)
		const G = 4
		iters := k.N(400, 4000)
		bad := make([]string, G)
		var wg sync.WaitGroup
		for g := 0; g < G; g++ {
			key, err := libsa.NewKey(raw)
			if err != nil {
				return
			}
			wg.Add(1)
			go func(g int, key *security.IKESAKey, r *core.Rng) {
				defer wg.Done()
				p := core.Try(func() {
					for it := 0; it < iters && bad[g] == ""; it++ {
						e, i := r.Intn(3), r.Intn(4)
						nonces := r.Bytes(r.Range(0, 64))
						ck := newChild(e, i)
						if err := ck.GenerateKeyForChildSA(key, nonces); err != nil {
							bad[g] = err.Error()
							return
						}
						if b := childCmp(ck, raw.Prf, raw.K.D, nonces, e, i); b != "" {
							bad[g] = fmt.Sprintf("derivation %d of worker %d: %s", it, g, b)
						}
					}
				})
				if p != nil {
					bad[g] = "panic: " + p.Value
				}
			}(g, key, core.NewRng(k.R.U64()))
		}
		wg.Wait()
		k.Eval(G * iters)
		for _, b := range bad {
			if b != "" {
				k.Violate("interference", "child-keys-wrong-when-equal-keyed-SA-objects-run-in-parallel", b, M{"suite": s.Name(), "keys": raw.JSON()})
				return
			}
		}
		k.Count("equal_keyed_objects_in_parallel", 1)
		k.Distinct("parallel-equal-keys|" + s.Name())
	})
	c.Require("hand_keyed_ike_sa_with_empty_SK_d_field", "equal_keyed_objects_in_parallel", "ike_sa_rekeyed_in_history", "earlier_child_sas_rechecked", "child_object_from_proposal_constructor", "child_object_copied_from_a_template")
}

// ---------------------------------------------------------------------------
// C16

func c16One(k *core.Case, ikl, ckl int) {
	noiseFor(k)
	ik, ck := k.R.Bytes(ikl), k.R.Bytes(ckl)
	ikRef, ckRef := append([]byte{}, ik...), append([]byte{}, ck...) // private copies for the reference
	var id []byte
	switch k.R.Intn(6) {
	case 0:
		id = nil
	case 1:
		id = []byte("0208930000000001@nai.5gc.mnc093.mcc208.3gppnetwork.org")
	case 2:
		id = append([]byte{0, 0xff, 0xfe, 0xc0, 0x80}, k.R.Bytes(k.R.Intn(20))...) // NUL, 0xFF, invalid UTF-8
	default:
		id = k.R.Bytes(k.R.Range(0, 255))
	}
	w := M{"ik": core.Hex(ik), "ck": core.Hex(ck), "identity": core.Hex(id)}
	if k.Index%3 == 1 && ikl > 0 && ckl > 0 {
		// both keys are views of ONE record buffer (tag|IK'|tag|CK'|..., CK' first, adjacent, a few octets apart): the
		// reference below works on the private copies made here
		ikv, ckv := append([]byte{}, ik...), append([]byte{}, ck...)
		gap := k.R.Pick(0, 1, 2, 3, ckl-1, ckl, ckl+1, ikl)
		if gap < 0 {
			gap = 0
		}
		rec := make([]byte, 0, 4+ikl+gap+ckl+80)
		rec = append(rec, 0x10, byte(ikl))
		if k.Index%2 == 1 {
			rec = append(rec, ckv...)
			rec = append(rec, make([]byte, gap)...)
			rec = append(rec, ikv...)
			ck, ik = rec[2:2+ckl], rec[2+ckl+gap:2+ckl+gap+ikl]
		} else {
			rec = append(rec, ikv...)
			rec = append(rec, make([]byte, gap)...)
			rec = append(rec, ckv...)
			ik, ck = rec[2:2+ikl], rec[2+ikl+gap:2+ikl+gap+ckl]
		}
		w["layout"] = fmt.Sprintf("IK' and CK' are views of one record, %d octets apart", gap)
		k.Count("keys_as_views_of_one_record", 1)
	}
	var kencr, kaut, kre, msk, emsk []byte
	var err error
	k.Eval(1)
	pn := core.Try(func() { kencr, kaut, kre, msk, emsk, err = eap.EapAkaPrimePRF(ik, ck, string(id)) })
	if pn != nil {
		k.Violate("panic", "prf': "+pn.Sig(), "EapAkaPrimePRF panicked", panicData(pn, w))
		return
	}
	if ikl == 0 || ckl == 0 {
		if err == nil {
			k.Violate("accepted", "empty-key-accepted", "empty IK' or CK' was not refused", w)
		} else {
			k.Distinct(fmt.Sprintf("empty|%v|%v", ikl == 0, ckl == 0))
		}
		return
	}
	if err != nil {
		k.Violate("error", "prf'-error: "+classifyErr(err), errStr(err), w)
		return
	}
	mk := ref.PrfPrime(append(append([]byte{}, ikRef...), ckRef...), append([]byte("EAP-AKA'"), id...), 208)
	for _, x := range []struct {
		n      string
		g      []byte
		lo, hi int
	}{{"K_encr", kencr, 0, 16}, {"K_aut", kaut, 16, 48}, {"K_re", kre, 48, 80}, {"MSK", msk, 80, 144}, {"EMSK", emsk, 144, 208}} {
		if !bytes.Equal(x.g, mk[x.lo:x.hi]) {
			k.Violate("mismatch", "prf'-mismatch/"+x.n, fmt.Sprintf("%s = %x, reference %x", x.n, x.g, mk[x.lo:x.hi]), w)
			return
		}
	}
	// the caller's side of the contract, in the same case: (a) results are the caller's — overwriting them must not
	// influence a later call; (b) the key buffers are the caller's — refreshing them IN PLACE (same backing arrays,
	// same lengths, same identity: a re-authentication) must give the keys of the NEW contents; (c) results handed out
	// earlier stay what they were
	held := [][]byte{append([]byte{}, kencr...), append([]byte{}, kaut...), append([]byte{}, kre...), append([]byte{}, msk...), append([]byte{}, emsk...)}
	first := [][]byte{kencr, kaut, kre, msk, emsk}
	if k.Index%2 == 0 {
		for _, o := range first {
			scribble(o)
		}
		a, b, c2, d2, e2, err2 := eap.EapAkaPrimePRF(ik, ck, string(id))
		if err2 != nil || !bytes.Equal(a, held[0]) || !bytes.Equal(b, held[1]) || !bytes.Equal(c2, held[2]) || !bytes.Equal(d2, held[3]) || !bytes.Equal(e2, held[4]) {
			k.Violate("history", "prf'-result-depends-on-earlier-returned-slices", "after the caller overwrote the slices returned by the previous call, the same inputs give other keys", w)
			return
		}
		k.Count("results_overwritten_then_recomputed", 1)
	} else {
		ik2, ck2 := k.R.Bytes(ikl), k.R.Bytes(ckl)
		copy(ik, ik2) // same backing arrays, new contents
		copy(ck, ck2)
		a, b, _, _, e2, err2 := eap.EapAkaPrimePRF(ik, ck, string(id))
		mk2 := ref.PrfPrime(append(append([]byte{}, ik2...), ck2...), append([]byte("EAP-AKA'"), id...), 208)
		if err2 != nil || !bytes.Equal(a, mk2[0:16]) || !bytes.Equal(b, mk2[16:48]) || !bytes.Equal(e2, mk2[144:208]) {
			k.Violate("history", "prf'-uses-stale-key-after-in-place-refresh", "IK'/CK' refreshed in place (same buffers, same identity): the second derivation does not give the keys of the new contents",
				M{"ik2": core.Hex(ik2), "ck2": core.Hex(ck2), "identity": core.Hex(id)})
			return
		}
		for i, o := range first {
			if !bytes.Equal(o, held[i]) {
				k.Violate("history", "prf'-earlier-result-changed-by-later-call", "keys returned by the first call changed when a second derivation was made", w)
				return
			}
		}
		k.Count("keys_refreshed_in_place", 1)
	}
	k.Distinct(fmt.Sprintf("%d|%d|id%s", ikl, ckl, sizeBucket(len(id))))
	if ikl != ckl {
		k.Count("unequal_key_lengths", 1)
	}
	if k.WantSample() {
		w["K_aut"] = core.Hex(kaut)
		k.Sample(w)
	}
}

func c16(c *core.Ctx) {
	c.Info("rule", "all (|IK'|,|CK'|) in 1..64 x 1..64 once (4096 pairs) plus the empty-key refusals, then sampled cases with typical 16/16 keys; identities 0..255 arbitrary octets incl. NUL, 0xFF, invalid UTF-8; "+
		"five outputs compared with octets 0-15,16-47,48-79,80-143,144-207 of reference PRF'; distinct = (|IK'|, |CK'|, identity size bucket)")
	c.Info("assumptions", "reference PRF' = hand-built HMAC-SHA-256 iteration (RFC 5448 3.4.1)")
	c.Family("all-length-pairs", 65*65, func(k *core.Case) { c16One(k, k.Index%65, k.Index/65) })
	c.Require("results_overwritten_then_recomputed", "keys_refreshed_in_place")
	// runs of derivations whose inputs are the SAME octet string IK'|CK'|identity cut at different places (the end of one
	// key is the start of the next field): one process, back to back - each must be the reference for ITS cut
	c.Family("boundary-shift-siblings", c.N(400, 200000), func(k *core.Case) {
		total := k.R.Range(3, 140)
		x := k.R.Bytes(total)
		if k.Index%3 == 0 { // printable: digits as in an IMSI-based identity
			for i := range x {
				x[i] = '0' + x[i]%10
			}
		}
		n := k.R.Range(2, 5)
		for j := 0; j < n; j++ {
			a := k.R.Range(1, minI(64, total-1))
			b := a + k.R.Range(1, minI(64, total-a))
			if j > 0 && k.R.Chance(2, 3) { // move ONE boundary by a few octets relative to the previous cut
				a, b = k.R.Range(1, minI(64, total-1)), b
				if b <= a || b-a > 64 {
					b = a + k.R.Range(1, minI(64, total-a))
				}
			}
			ik, ck, id := append([]byte{}, x[:a]...), append([]byte{}, x[a:b]...), string(x[b:])
			var kencr, kaut, kre, msk, emsk []byte
			var err error
			k.Eval(1)
			pn := core.Try(func() { kencr, kaut, kre, msk, emsk, err = eap.EapAkaPrimePRF(ik, ck, id) })
			w := M{"octets": core.Hex(x), "cut_ik_ck": a, "cut_ck_identity": b, "derivation_in_run": j}
			if pn != nil || err != nil {
				k.Violate("error", "prf'-boundary-siblings-error", fmt.Sprint(pn, err), w)
				return
			}
			mk := ref.PrfPrime(append([]byte{}, x[:b]...), append([]byte("EAP-AKA'"), x[b:]...), 208)
			got := append(append(append(append(append([]byte{}, kencr...), kaut...), kre...), msk...), emsk...)
			if !bytes.Equal(got, mk) {
				k.Violate("mismatch", "prf'-mismatch/boundary-shift-sibling", fmt.Sprintf("derivation %d of a run over one octet string cut at (%d,%d): keys differ from the reference", j, a, b), w)
				return
			}
			k.Count("boundary_shift_sibling_derivations", 1)
		}
		k.Distinct(fmt.Sprintf("bshift|%s|%d", sizeBucket(total), n))
	})
	c.Require("boundary_shift_sibling_derivations")
	// two DIFFERENT key pairs (same identity) that agree in a weak fingerprint of IK'|CK' (or of IK', or of CK'): computed,
	// not searched - CRC-32 variants, CRC-64 and XOR folds are affine, so the second key is solved for
	c.Family("colliding-keys", c.N(3*len(core.Fingerprints)*8, 3*len(core.Fingerprints)*400), func(k *core.Case) {
		fp := core.Fingerprints[k.Index%len(core.Fingerprints)]
		region := k.Index / len(core.Fingerprints) % 3
		k1 := k.R.Bytes(32)
		k2 := append([]byte{}, k1...)
		lo, hi := 0, 32
		if region == 1 {
			hi = 16
		} else if region == 2 {
			lo = 16
		}
		k2[lo+k.R.Intn(hi-lo)] ^= byte(1 << uint(k.R.Intn(8)))
		pos := lo + k.R.Intn(hi-lo-fp.Bytes+1)
		w := core.Fingerprint{Name: fp.Name, Bits: fp.Bits, Bytes: fp.Bytes, F: func(b []byte) uint64 { return fp.F(b[lo:hi]) }}
		if !core.PatchToCollide(k2, pos, w, w.F(k1)) || bytes.Equal(k1, k2) {
			k.Count("no_collision_constructed", 1)
			return
		}
		id := k.R.Bytes(k.R.Range(0, 60))
		for round, kk := range [][]byte{k1, k2, k1, k2} {
			k.Eval(1)
			var out [5][]byte
			var err error
			pn := core.Try(func() {
				out[0], out[1], out[2], out[3], out[4], err = eap.EapAkaPrimePRF(append([]byte{}, kk[:16]...), append([]byte{}, kk[16:]...), string(id))
			})
			mk := ref.PrfPrime(kk, append([]byte("EAP-AKA'"), id...), 208)
			want := [5][]byte{mk[:16], mk[16:48], mk[48:80], mk[80:144], mk[144:208]}
			wd := M{"fingerprint": fp.Name, "region": region, "key1": core.Hex(k1), "key2": core.Hex(k2), "identity": core.Hex(id), "round": round}
			if pn != nil || err != nil {
				k.Violate("error", "prf'-error/colliding-keys", fmt.Sprint(err, pn), wd)
				return
			}
			for j := range out {
				if !bytes.Equal(out[j], want[j]) {
					k.Violate("mismatch", "prf'-wrong-for-a-key-pair-that-collides-with-an-earlier-one/"+fp.Name, fmt.Sprintf("derivation %d, output %d differs from the reference", round+1, j), wd)
					return
				}
			}
		}
		k.Count("colliding_key_pairs_derived", 1)
		k.Distinct(fmt.Sprintf("collide|%s|%d", fp.Name, region))
	})
	// keys and identities that LOOK like text (hex / base64 / digits / letters) at the lengths such encodings have:
	// binary inputs are binary whatever they look like
	c.Family("text-shaped-keys", c.N(600, 60000), func(k *core.Case) {
		lens := []int{16, 22, 24, 32, 44, 48, 64}
		ikl, ckl := lens[k.Index%len(lens)], lens[k.Index/len(lens)%len(lens)]
		if k.Index%3 == 0 {
			ckl = ikl
		}
		ik, ck := gen.Text(k.R, ikl), gen.Text(k.R, ckl)
		if k.Index%2 == 0 { // both from the same alphabet
			ik, ck = abs.HB(strings.Repeat(string(gen.Text(k.R, 64)), 1)[:ikl]), gen.Text(k.R, ckl)
			hexd := "0123456789abcdefABCDEF"
			for i := range ik {
				ik[i] = hexd[k.R.Intn(len(hexd))]
			}
			for i := range ck {
				ck[i] = hexd[k.R.Intn(len(hexd))]
			}
		}
		id := gen.Name(k.R)
		k.Eval(1)
		var out [5][]byte
		var err error
		pn := core.Try(func() {
			out[0], out[1], out[2], out[3], out[4], err = eap.EapAkaPrimePRF(append([]byte{}, ik...), append([]byte{}, ck...), string(id))
		})
		wd := M{"ik": core.Hex(ik), "ck": core.Hex(ck), "identity": core.Hex(id), "ik_text": string(ik), "ck_text": string(ck)}
		if pn != nil || err != nil {
			k.Violate("error", "prf'-error/text-shaped-keys", fmt.Sprint(err, pn), wd)
			return
		}
		mk := ref.PrfPrime(append(append([]byte{}, ik...), ck...), append([]byte("EAP-AKA'"), id...), 208)
		want := [5][]byte{mk[:16], mk[16:48], mk[48:80], mk[80:144], mk[144:208]}
		for j := range out {
			if !bytes.Equal(out[j], want[j]) {
				k.Violate("mismatch", "prf'-mismatch/text-shaped-keys", fmt.Sprintf("output %d differs from the reference for keys that look like text", j), wd)
				return
			}
		}
		k.Count("text_shaped_keys_derived", 1)
		k.Distinct(fmt.Sprintf("textkeys|%d|%d", ikl, ckl))
	})
	c.Require("colliding_key_pairs_derived", "text_shaped_keys_derived", "keys_as_views_of_one_record")
	c.Family("sampled", c.N(40000, 60000000), func(k *core.Case) {
		if k.R.Chance(2, 3) {
			c16One(k, 16, 16)
		} else {
			c16One(k, k.R.Range(1, 64), k.R.Range(1, 64))
		}
	})
}

var _ = bridge.BuildMsg
