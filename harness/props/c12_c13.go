package props

import (
	"bytes"
	"fmt"
	"sort"

	ike "github.com/free5gc/ike"
	"github.com/free5gc/ike/eap"
	"github.com/free5gc/ike/message"
	"github.com/free5gc/ike/security"

	"verifharness/abs"
	"verifharness/bridge"
	"verifharness/core"
	"verifharness/gen"
	"verifharness/libsa"
	"verifharness/ref"
)

func init() {
	core.Register("C12", c12)
	core.Register("C13", c13)
}

// c12Msg: b -> d1 -> e1 -> d2 -> e2 on the library's own objects (no rebuild through the abstract model).
func c12Msg(k *core.Case, b []byte, canonical bool, src string) {
	k.Eval(1)
	w := func() M { return M{"input": core.HexClip(b, 8192), "source": src, "canonical": canonical} }
	d1, err, p := libDecodeKeep(b)
	if p != nil {
		k.Violate("panic", "decode: "+p.Sig(), "Decode panicked", panicData(p, w()))
		return
	}
	if err != nil {
		if canonical {
			k.Violate("decode-error", "canonical-rejected: "+classifyErr(err), "canonical reference datagram rejected: "+errStr(err), w())
		} else {
			k.Count("not_accepted", 1)
		}
		return
	}
	o1 := bridge.ObserveMsg(d1)
	var e1 []byte
	p = core.Try(func() { e1, err = d1.Encode() })
	if p != nil {
		// C12 is conditional on the message encoding again; a panic is neither. Recorded, not judged.
		k.Count("encode_of_decoded_panicked(not judged): "+p.Sig(), 1)
		if canonical {
			k.Violate("panic", "encode-canonical: "+p.Sig(), "Encode of a decoded canonical datagram panicked", panicData(p, w()))
		}
		return
	}
	if err != nil {
		k.Count("decoded_but_not_encodable", 1)
		if canonical {
			k.Violate("encode-error", "canonical-not-reencodable: "+classifyErr(err), errStr(err), w())
		}
		return
	}
	d2, err, p := libDecodeKeep(e1)
	wd := w()
	wd["reencoded"] = core.HexClip(e1, 8192)
	wd["decoded"] = msgJSON(o1)
	if p != nil {
		k.Violate("panic", "redecode: "+p.Sig(), "Decode of the re-encoding panicked", panicData(p, wd))
		return
	}
	if err != nil {
		k.Violate("unstable", "reencoding-not-decodable: "+classifyErr(err), "the re-encoding of a decoded message is rejected: "+errStr(err), wd)
		return
	}
	o2 := bridge.ObserveMsg(d2)
	if !abs.Equal(o1, o2) {
		k.Violate("unstable", "redecode-differs: "+diffClass(o1, o2), "decode(encode(decode(b))) != decode(b): "+abs.Diff(o1, o2), wd)
		return
	}
	var e2 []byte
	p = core.Try(func() { e2, err = d2.Encode() })
	if p != nil || err != nil {
		k.Violate("unstable", "second-encode-failed", fmt.Sprint(err, p), wd)
		return
	}
	if !bytes.Equal(e1, e2) {
		wd["reencoded2"] = core.HexClip(e2, 8192)
		k.Violate("unstable", "no-fixed-point: "+firstDiffClass(o1), "second re-encoding differs from the first", wd)
		return
	}
	norm := "identical"
	if !bytes.Equal(b, e1) {
		norm = "normalised"
		if canonical {
			k.Violate("not-identical", "canonical-not-byte-identical: "+firstDiffClass(o1), fmt.Sprintf("canonical datagram re-encodes differently at offset %d", firstDiff(b, e1)), wd)
			return
		}
	}
	k.Count("reencoding_"+norm, 1)
	if len(o1.Payloads) > 0 {
		k.Distinct(fmt.Sprintf("%s|%s|%s", src, norm, o1.Shape()))
	}
	if k.WantSample() && len(b) < 300 && len(o1.Payloads) > 0 {
		k.Sample(M{"input": core.Hex(b), "reencoded": core.Hex(e1), "source": src, "relation": norm})
	}
}

func firstDiff(a, b []byte) int {
	for i := 0; i < len(a) && i < len(b); i++ {
		if a[i] != b[i] {
			return i
		}
	}
	return minI(len(a), len(b))
}

func firstDiffClass(m *abs.Msg) string {
	if len(m.Payloads) == 0 {
		return "empty"
	}
	s := abs.Kinds(m)
	if len(s) > 40 {
		s = s[:40]
	}
	return s
}

func c12EAP(k *core.Case, b []byte, canonical bool, src string) {
	k.Eval(1)
	w := func() M {
		return M{"input": core.HexClip(b, 4096), "source": src, "canonical": canonical, "level": "EAP"}
	}
	var err error
	d1 := new(eap.EAP)
	p := core.Try(func() { err = d1.Unmarshal(b) })
	if p != nil {
		k.Violate("panic", "eap-decode: "+p.Sig(), "EAP Unmarshal panicked", panicData(p, w()))
		return
	}
	if err != nil || len(b) == 0 {
		if canonical {
			k.Violate("decode-error", "canonical-eap-rejected: "+classifyErr(err), errStr(err), w())
		} else {
			k.Count("not_accepted", 1)
		}
		return
	}
	o1 := bridge.ObserveEAP(d1)
	var e1 []byte
	p = core.Try(func() { e1, err = d1.Marshal() })
	if p != nil {
		k.Count("encode_of_decoded_panicked(not judged): "+p.Sig(), 1)
		return
	}
	if err != nil {
		k.Count("decoded_but_not_encodable", 1)
		if canonical {
			k.Violate("encode-error", "canonical-eap-not-reencodable", errStr(err), w())
		}
		return
	}
	wd := w()
	wd["reencoded"] = core.HexClip(e1, 4096)
	wd["decoded"] = o1.Canon()
	d2 := new(eap.EAP)
	p = core.Try(func() { err = d2.Unmarshal(e1) })
	if p != nil {
		k.Violate("panic", "eap-redecode: "+p.Sig(), "panic", panicData(p, wd))
		return
	}
	if err != nil {
		k.Violate("unstable", "eap-reencoding-not-decodable: "+classifyErr(err), errStr(err), wd)
		return
	}
	o2 := bridge.ObserveEAP(d2)
	if !abs.EqualEAP(o1, o2) {
		k.Violate("unstable", "eap-redecode-differs/"+o1.Shape()[:minI(len(o1.Shape()), 12)], o1.JSON()+" != "+o2.JSON(), wd)
		return
	}
	var e2 []byte
	p = core.Try(func() { e2, err = d2.Marshal() })
	if p != nil || err != nil || !bytes.Equal(e1, e2) {
		wd["reencoded2"] = core.HexClip(e2, 4096)
		k.Violate("unstable", "eap-no-fixed-point", fmt.Sprint(err, p), wd)
		return
	}
	norm := "identical"
	if !bytes.Equal(b, e1) {
		norm = "normalised"
		if canonical {
			k.Violate("not-identical", "canonical-eap-not-byte-identical", fmt.Sprintf("offset %d", firstDiff(b, e1)), wd)
			return
		}
	}
	k.Count("eap_reencoding_"+norm, 1)
	k.Distinct(fmt.Sprintf("eap|%s|%s|%s", src, norm, o1.Shape()))
}

func c12(c *core.Ctx) {
	c.Info("rule", "case = byte string b; if Decode(b)=d1 and Encode(d1)=e1 succeed then Decode(e1)=d2 must succeed, observe(d2)==observe(d1), Encode(d2)==e1; for canonical reference datagrams e1==b. Sources: reference encodings with reserved-bit noise / critical flags / shuffled transforms / unsupported payloads, "+
		"structure-aware mutations of them, enumerated Delete and EAP-AKA' windows, canonical reference datagrams; same at EAP level with (*EAP).Unmarshal/Marshal incl. non-ascending attribute order, non-zero padding and reserved octets, unknown attributes. "+
		"distinct = (source, identical|normalised, structural shape of d1); non-trivial = d1 has >= 1 payload and e1 exists")
	c.Info("assumptions", "an Encode that panics on a decoded message is outside the conditional statement: it is counted, not judged (known: Delete with SPI size 1..3 and a non-zero count)")
	cm := corpusMsgs()
	c.Family("corpus-canonical", len(cm), func(k *core.Case) {
		b, err := ref.EncodeMsg(cm[k.Index], nil)
		if err == nil {
			c12Msg(k, b, true, "corpus")
		}
	})
	// reduced witnesses of repaired C12 defects (D15, D16, D17): replayed first, a regression is reported at once
	c.Family("regression-corpus", 6, func(k *core.Case) {
		hdr := func(first uint8, chain []byte) []byte {
			return append(ref.EncodeHeader(&abs.Msg{ISPI: 1, RSPI: 2, Major: 2, Exch: 37, MsgID: 1}, first, 28+len(chain)), chain...)
		}
		sk := []byte{0, 0, 0, 24, 1, 2, 3, 4, 5, 6, 7, 8, 9, 10, 11, 12, 13, 14, 15, 16, 17, 18, 19, 20}
		w := [][]byte{
			hdr(abs.PSK, append(append([]byte{}, sk...), 36, 0x43, 0, 6, 7, 8, 0, 0, 0, 12, 11, 0, 0, 0, 1, 2, 3, 4)), // D17: SK (next=0), skipped type-0 payload, IDr
			hdr(abs.PSK, append(append([]byte{41}, sk[1:]...), 0, 0, 0, 8, 0, 0, 0x40, 1)),                            // SK followed by a Notify
			hdr(abs.PDelete, []byte{0, 0, 0, 18, 3, 5, 0, 2, 1, 2, 3, 4, 5, 6, 7, 8, 9, 10}),                          // D15: two 5-octet SPIs
			hdr(abs.PDelete, []byte{0, 0, 0, 12, 3, 2, 0, 2, 1, 2, 3, 4}),                                             // D15: two 2-octet SPIs
			hdr(abs.PKE, []byte{0, 0, 0, 4}),                                                                          // D16: empty KE body
			hdr(abs.PCP, []byte{39, 0, 0, 4, 0, 0, 0, 4}),                                                             // D16: empty CP then empty AUTH
		}
		c12Msg(k, w[k.Index], false, "regression-corpus")
	})
	c.Family("canonical", c.N(8000, 2000000), func(k *core.Case) {
		m := gen.Msg(k.R, gen.Opt{AllowBig: k.Index%13 == 0, AllowEmpty: true})
		// canonical mode: transforms in ascending type order
		mc := m.Canon()
		b, err := ref.EncodeMsg(mc, nil)
		if err == nil {
			c12Msg(k, b, true, "canonical")
		}
	})
	c.Family("liberties", c.N(8000, 2000000), func(k *core.Case) {
		m := gen.Msg(k.R, gen.Opt{AllowEmpty: true})
		o, _ := noiseOpts(k.R)
		o.AKAOrder, o.AKANoise = true, k.R.Byte
		shuffleTransforms(k.R, m)
		if k.R.Chance(1, 3) { // an unsupported, non-critical payload somewhere
			pos := k.R.Intn(len(m.Payloads) + 1)
			ins := abs.Payload{Kind: uint8(k.R.Pick(1, 32, 49, 200, 255)), Data: k.R.Bytes(k.R.Intn(12))}
			m.Payloads = append(m.Payloads[:pos], append([]abs.Payload{ins}, m.Payloads[pos:]...)...)
		}
		b, err := ref.EncodeMsg(m, o)
		if err == nil {
			c12Msg(k, b, false, "liberties")
		}
	})
	c.Family("mutated", c.N(60000, 12000000), func(k *core.Case) {
		m := gen.Msg(k.R, gen.Opt{AllowEmpty: true, MaxPayloads: 4})
		o, _ := noiseOpts(k.R)
		o.AKAOrder, o.AKANoise = true, k.R.Byte
		b, err := ref.EncodeMsg(m, o)
		if err != nil || len(b) > 8000 {
			return
		}
		mu := mutate(k.R, b)
		fixLen(mu)
		c12Msg(k, mu, false, "mutated")
	})
	c.Family("mutated-single", c.N(60000, 6000000), func(k *core.Case) {
		kinds := gen.AllKinds()
		kind := kinds[k.Index%len(kinds)]
		body, err := ref.EncodeBody(gen.Payload(k.R, kind), &ref.Opts{Noise: k.R.Byte, AKANoise: k.R.Byte, AKAOrder: true})
		if err != nil || len(body) > 6000 {
			return
		}
		mu := mutate(k.R, body)
		if len(mu)+4 > 0xffff {
			return
		}
		chain := append([]byte{0, 0, byte((len(mu) + 4) >> 8), byte(len(mu) + 4)}, mu...)
		whole := append(ref.EncodeHeader(gen.Header(k.R), kind, 28+len(chain)), chain...)
		c12Msg(k, whole, false, "mutated-"+abs.KindName[kind])
	})
	c.Family("delete-window", 256, func(k *core.Case) {
		ss := k.Index
		for _, cnt := range []int{0, 1, 2, 3, 4} {
			for rem := 0; rem <= 20; rem++ {
				body := append([]byte{3, byte(ss), 0, byte(cnt)}, k.R.Bytes(rem)...)
				chain := append([]byte{0, 0, 0, byte(len(body) + 4)}, body...)
				whole := append(ref.EncodeHeader(&abs.Msg{Major: 2, Exch: 37}, abs.PDelete, 28+len(chain)), chain...)
				c12Msg(k, whole, false, "delete-window")
			}
		}
	})
	c.Family("sa-attr-window", 256, func(k *core.Case) {
		// attribute type / format / multi-attribute transforms
		hi := byte(k.Index)
		for _, lo := range []byte{0, 14, 44, 0x8e, 0xff} {
			for _, extra := range [][]byte{nil, {0x80, 14, 0, 128}, {0, 9, 0, 2, 7, 7}} {
				attr := []byte{hi, lo, 0, 3, 1, 2, 3}
				if hi&0x80 != 0 {
					attr = []byte{hi, lo, 1, 0}
				}
				attr = append(attr, extra...)
				tr := append([]byte{0, 0, 0, byte(8 + len(attr)), 1, 0, 0, 12}, attr...)
				pr := append([]byte{0, 0, 0, byte(8 + len(tr)), 1, 1, 0, 1}, tr...)
				chain := append([]byte{0, 0, 0, byte(len(pr) + 4)}, pr...)
				whole := append(ref.EncodeHeader(&abs.Msg{Major: 2, Exch: 34}, abs.PSA, 28+len(chain)), chain...)
				c12Msg(k, whole, false, "sa-attr-window")
			}
		}
	})
	// EAP level
	c.Family("eap-canonical", c.N(6000, 1000000), func(k *core.Case) {
		e := gen.EAP(k.R)
		if k.Index%2 == 0 {
			e = &abs.EAP{Code: uint8(k.R.Pick(1, 2)), ID: k.R.Byte(), Method: &abs.Method{Type: abs.MAkaPrime, AKA: gen.AKA(k.R)}}
		}
		b, err := ref.EncodeEAP(e, nil)
		if err == nil {
			c12EAP(k, b, true, "eap-canonical")
		}
	})
	c.Family("eap-liberties", c.N(8000, 1000000), func(k *core.Case) {
		a := gen.AKA(k.R)
		for x := len(a.Attrs) - 1; x > 0; x-- {
			y := k.R.Intn(x + 1)
			a.Attrs[x], a.Attrs[y] = a.Attrs[y], a.Attrs[x]
		}
		if len(a.Attrs) > 0 && k.R.Chance(1, 5) { // the same attribute type twice (RFC 5448 allows several AT_KDF), equal or different values
			d := a.Attrs[k.R.Intn(len(a.Attrs))]
			if k.R.Bool() {
				d.Value = append(abs.HB{}, d.Value...)
				if len(d.Value) > 0 {
					d.Value[0] ^= 0x55
				}
			}
			pos := k.R.Intn(len(a.Attrs) + 1)
			a.Attrs = append(a.Attrs[:pos], append([]abs.AKAAttr{d}, a.Attrs[pos:]...)...)
			k.Count("aka_packets_with_a_repeated_attribute_type", 1)
		}
		if k.R.Chance(1, 3) { // an attribute type without a dedicated reader
			a.Attrs = append(a.Attrs, abs.AKAAttr{Type: uint8(k.R.Pick(4, 12, 14, 22, 129, 135, 200, 255)), Value: k.R.Bytes(4 * k.R.Intn(4))})
		}
		e := &abs.EAP{Code: uint8(k.R.Pick(1, 2)), ID: k.R.Byte(), Method: &abs.Method{Type: abs.MAkaPrime, AKA: a}}
		b, err := ref.EncodeEAP(e, &ref.Opts{AKAOrder: true, AKANoise: k.R.Byte})
		if err == nil {
			// a non-ascending order / non-zero padding is not "canonical"; byte identity is still reported
			c12EAP(k, b, false, "eap-liberties")
		}
	})
	c.Family("eap-mutated", c.N(40000, 6000000), func(k *core.Case) {
		var e *abs.EAP
		if k.Index%3 != 0 {
			e = &abs.EAP{Code: 1, ID: k.R.Byte(), Method: &abs.Method{Type: abs.MAkaPrime, AKA: gen.AKA(k.R)}}
		} else {
			e = gen.EAP(k.R)
		}
		b, err := ref.EncodeEAP(e, &ref.Opts{AKAOrder: true, AKANoise: k.R.Byte})
		if err != nil {
			return
		}
		mu := mutate(k.R, b)
		if len(mu) >= 4 {
			mu[2], mu[3] = byte(len(mu)>>8), byte(len(mu))
		}
		c12EAP(k, mu, false, "eap-mutated")
	})
	// sizes around powers of two: attribute boundaries are steered onto every 4-octet position within +-16 of
	// 512 ... 32768 (buffered readers, slice growth steps and length arithmetic change behaviour there), with more
	// attributes following the boundary
	thresholds := []int{512, 1024, 2048, 4096, 8192, 16384}
	c.Family("aka-size-thresholds", len(thresholds)*9, func(k *core.Case) {
		th := thresholds[k.Index/9]
		target := th + (k.Index%9-4)*4 // packet offset at which an attribute boundary shall fall
		// packet: 8 octets (EAP header 4, type 1, subtype 1, reserved 2), then attributes
		a := &abs.AKA{Subtype: 1}
		a.Attrs = append(a.Attrs, abs.AKAAttr{Type: abs.ATRand, Value: gen.DataN(k.R, 16)})
		used := 8 + 20
		ft := uint8(129) // skippable attribute types without a dedicated reader, ascending
		for used < target {
			n := target - used
			if n > 1020 {
				n = 1020
			}
			if rest := target - used - n; rest > 0 && rest < 4 {
				n -= 4
			}
			if n < 4 {
				break
			}
			a.Attrs = append(a.Attrs, abs.AKAAttr{Type: ft, Value: gen.DataN(k.R, n-4)})
			used += n
			ft++
		}
		// what follows the boundary
		a.Attrs = append(a.Attrs, abs.AKAAttr{Type: 200, Value: gen.DataN(k.R, 8)}, abs.AKAAttr{Type: 201, Value: gen.DataN(k.R, 4)})
		e := &abs.EAP{Code: 1, ID: k.R.Byte(), Method: &abs.Method{Type: abs.MAkaPrime, AKA: a}}
		b, err := ref.EncodeEAP(e, &ref.Opts{AKAOrder: true})
		if err != nil {
			return
		}
		k.Count("aka_packets_with_a_boundary_at_a_size_threshold", 1)
		c12EAP(k, b, true, "aka-size-thresholds")
		// the same inside an IKE message
		if len(b)+4 <= 0xffff {
			body := append([]byte{0, 0, byte((len(b) + 4) >> 8), byte(len(b) + 4)}, b...)
			hdr := &abs.Msg{ISPI: 1, RSPI: 2, Major: 2, Exch: 35, Flags: 0x08, MsgID: 4}
			c12Msg(k, append(ref.EncodeHeader(hdr, abs.PEAP, 28+len(body)), body...), true, "aka-size-thresholds")
		}
	})
	c.Family("aka-window", 256, func(k *core.Case) {
		at := byte(k.Index)
		for al := 0; al <= 9; al++ {
			for _, d := range []int{-1, 0, 1, 4} {
				n := 4*al - 2 + d
				if n < 0 {
					continue
				}
				val := k.R.Bytes(n)
				if n >= 2 && k.R.Bool() { // plausible bit length for RES / KDF_INPUT
					bits := (n - 2 - k.R.Intn(4)) * 8
					if bits >= 0 {
						val[0], val[1] = byte(bits>>8), byte(bits)
					}
				}
				body := append([]byte{50, 1, 0, 0, at, byte(al)}, val...)
				if k.R.Bool() {
					body = append(body, 24, 1, 0, 1) // a following AT_KDF
				}
				pkt := append([]byte{1, 9, 0, byte(4 + len(body))}, body...)
				c12EAP(k, pkt, false, "aka-window")
			}
		}
	})
	c.Require("aka_packets_with_a_boundary_at_a_size_threshold", "reencoding_identical", "reencoding_normalised", "eap_reencoding_identical", "eap_reencoding_normalised")
}

// ---------------------------------------------------------------------------
// C13

func unsupportedTypes() []uint8 {
	var l []uint8
	for t := 1; t <= 32; t++ {
		l = append(l, uint8(t))
	}
	for t := 49; t <= 255; t++ {
		l = append(l, uint8(t))
	}
	return l
}

var c13BodyLens = []int{0, 1, 3, 4, 5, 255, 1024}

func c13One(k *core.Case, base *abs.Msg, ins []abs.Payload, pos []int, o *ref.Opts, tag string) {
	// insert ins[i] before base payload index pos[i] (pos ascending, pos==len means at the end)
	var all []abs.Payload
	j := 0
	anyCrit := false
	for i := 0; i <= len(base.Payloads); i++ {
		for j < len(ins) && pos[j] == i {
			all = append(all, ins[j])
			anyCrit = anyCrit || ins[j].Crit
			j++
		}
		if i < len(base.Payloads) {
			all = append(all, base.Payloads[i])
		}
	}
	m := *base
	m.Payloads = all
	wire, err := ref.EncodeMsg(&m, o)
	if err != nil {
		return
	}
	k.Eval(1)
	w := M{"base": msgJSON(base), "wire": core.HexClip(wire, 4096), "inserted_types": insTypes(ins), "positions": pos, "any_critical": anyCrit, "case": tag}
	if k.Index%4 == 2 {
		// an application that logged these very payload types before (a skipped payload seen earlier on this SA, the
		// type named in an UNSUPPORTED_CRITICAL_PAYLOAD notification it received)
		for _, x := range ins {
			logTypeCodes(int(x.Kind), 1)
		}
		k.Count("inserted_payload_types_logged_before_decoding", 1)
	}
	d, derr, p := libDecode(wire)
	if p != nil {
		k.Violate("panic", "decode: "+p.Sig(), "Decode panicked", panicData(p, w))
		return
	}
	if anyCrit {
		if derr == nil {
			k.Violate("accepted", "critical-unsupported-accepted", "a message with a critical unsupported payload was accepted", w)
			return
		}
		k.Count("rejected_critical", 1)
	} else {
		if derr != nil {
			k.Violate("decode-error", "noncritical-unsupported-rejected: "+classifyErr(derr), "a message with non-critical unsupported payloads was rejected: "+errStr(derr), w)
			return
		}
		if !abs.Equal(base, d) {
			k.Violate("mismatch", "skip-changes-message: "+diffClass(base, d), "decoding with skipped payloads differs from the message without them: "+abs.Diff(base, d), w)
			return
		}
		k.Count("skipped_ok", 1)
	}
	if len(wire) > 16 && wire[16] != abs.PSK {
		if !c13Again(k, wire, nil, k.R.Bool(), base, anyCrit, w, "cleartext") {
			return
		}
	}
	for i, in := range ins {
		where := "middle"
		if pos[i] == 0 {
			where = "front"
		} else if pos[i] == len(base.Payloads) {
			where = "end"
		}
		k.Count("position_"+where, 1)
		if i == 0 {
			k.Distinct(fmt.Sprintf("t%d|%s|crit%v|len%d|n%d", in.Kind, where, in.Crit, len(in.Data), len(ins)))
		}
	}
	if k.WantSample() && len(wire) < 200 {
		k.Sample(w)
	}
}

// c13Again: the same datagram presented again with the header object that was parsed for the first presentation
// (a retransmission, or the retry after the SA lookup): every presentation must have the outcome want / wantErr.
func c13Again(k *core.Case, wire []byte, key *security.IKESAKey, recvInit bool, want *abs.Msg, wantErr bool, w M, tag string) bool {
	var bad string
	p := core.Try(func() {
		hdr, err := message.ParseHeader(wire)
		if err != nil {
			if !wantErr {
				bad = "ParseHeader: " + err.Error()
			}
			return
		}
		for round := 0; round < 3; round++ {
			lm, err := ike.DecodeDecrypt(wire, hdr, key, role(recvInit))
			if (err != nil) != wantErr {
				bad = fmt.Sprintf("presentation %d with the same parsed header: error=%v, expected error=%v (%s)", round+1, err != nil, wantErr, errStr(err))
				return
			}
			if err == nil && (lm == nil || !abs.Equal(want, bridge.ObserveMsg(lm))) {
				bad = fmt.Sprintf("presentation %d with the same parsed header decodes differently", round+1)
				if lm != nil {
					bad += ": " + abs.Diff(want, bridge.ObserveMsg(lm))
				}
				return
			}
		}
	})
	if p != nil {
		k.Violate("panic", "decode-again: "+p.Sig(), "panic", panicData(p, w))
		return false
	}
	if bad != "" {
		k.Violate("history", "repeated-presentation-with-one-parsed-header-differs/"+tag, bad, w)
		return false
	}
	k.Count("presented_three_times_with_one_parsed_header", 1)
	return true
}

func insTypes(ins []abs.Payload) []int {
	var l []int
	for _, p := range ins {
		l = append(l, int(p.Kind))
	}
	return l
}

func c13(c *core.Ctx) {
	c.Info("rule", "case = domain message + unsupported payloads inserted by the reference encoder. Exhaustive single insertions: every type code 1..32, 49..255 x {front, each middle position, end} x both critical-flag values x body lengths {0,1,3,4,5,255,1024} on rotating base messages; "+
		"sampled multiple insertions (2-5, mixed flags, random bodies 0..1024) and critical flags on implemented types. Oracle: all non-critical => decode equals the message without them; any critical => error; distinct = (type code, position class, flag, body length, number inserted)")
	c.Info("exhaustive", "true")
	c.Info("assumptions", "exhaustive refers to single insertions over (type code x position class x flag x listed body lengths); base messages and bodies are sampled")
	types := unsupportedTypes()
	c.Family("single-exhaustive", len(types)*2, func(k *core.Case) {
		t := types[k.Index/2]
		crit := k.Index%2 == 1
		reps := 3
		if k.Thorough() {
			reps = 300
		}
		for rep := 0; rep < reps; rep++ {
			base := gen.Msg(k.R, gen.Opt{MaxPayloads: 4, AllowEmpty: rep%5 == 4})
			for _, bl := range c13BodyLens {
				for pos := 0; pos <= len(base.Payloads); pos++ {
					var o *ref.Opts
					if k.R.Bool() {
						o = &ref.Opts{Noise: k.R.Byte, CritKnown: k.R.Bool}
					}
					c13One(k, base, []abs.Payload{{Kind: t, Crit: crit, Data: k.R.Bytes(bl)}}, []int{pos}, o, "single")
				}
			}
		}
	})
	c.Family("multiple", c.N(30000, 12000000), func(k *core.Case) {
		base := gen.Msg(k.R, gen.Opt{MaxPayloads: 5, AllowEmpty: true})
		n := 2 + k.R.Intn(4)
		var ins []abs.Payload
		var pos []int
		critMode := k.R.Intn(3) // 0 none, 1 some, 2 all
		for i := 0; i < n; i++ {
			ins = append(ins, abs.Payload{Kind: types[k.R.Intn(len(types))], Data: k.R.Bytes(k.R.Pick(0, 1, 4, k.R.Intn(1025))),
				Crit: critMode == 2 || (critMode == 1 && k.R.Chance(1, 3))})
			pos = append(pos, k.R.Intn(len(base.Payloads)+1))
		}
		// ascending positions
		for i := range pos {
			for j := i + 1; j < len(pos); j++ {
				if pos[j] < pos[i] {
					pos[i], pos[j] = pos[j], pos[i]
				}
			}
		}
		c13One(k, base, ins, pos, &ref.Opts{Noise: k.R.Byte, CritKnown: k.R.Bool}, "multiple")
	})
	// long runs: 60..70 adjacent unsupported payloads of ~1 KiB each, so that the octets skipped in one run cross 65536
	// (and 32768) - sums of many lengths, not any single length
	c.Family("long-runs", c.N(40, 4000), func(k *core.Case) {
		base := gen.Msg(k.R, gen.Opt{MaxPayloads: 3, AllowEmpty: true})
		n := k.R.Pick(31, 32, 33, 60, 63, 64, 65, 66, 70, 130)
		var ins []abs.Payload
		var pos []int
		at := k.R.Intn(len(base.Payloads) + 1)
		critAt := -1
		if k.Index%3 == 2 {
			critAt = n - 1 - k.R.Intn(3) // a critical one near the end of the run
		}
		for i := 0; i < n; i++ {
			body := k.R.Bytes(k.R.Pick(1020, 1024, 1024, 1000, 1023))
			if k.Index%2 == 0 {
				// bodies that look like payload headers of implemented types (what a walker that lost its place would parse)
				for o := 0; o+8 <= len(body); o += 8 {
					copy(body[o:], []byte{byte(k.R.Pick(40, 43, 41)), 0, 0, 8, 1, 2, 3, 4})
				}
			}
			ins = append(ins, abs.Payload{Kind: types[k.R.Intn(len(types))], Data: body, Crit: i == critAt})
			pos = append(pos, at)
		}
		c13One(k, base, ins, pos, nil, "long-run")
		k.Count("long_runs_of_unsupported_payloads", 1)
	})
	// chains with MANY payloads (the count crosses 8-bit and 9-bit limits) of which one or a few are unsupported, at any
	// position: implemented and unsupported payloads together make up the count
	c.Family("many-payloads", c.N(48, 2400), func(k *core.Case) {
		n := []int{200, 253, 254, 255, 256, 257, 300, 510, 511, 512, 513, 700}[k.Index%12]
		base := gen.Header(k.R)
		for i := 0; i < n; i++ {
			base.Payloads = append(base.Payloads, abs.Payload{Kind: abs.PNotify, Notify: &abs.Notify{Proto: 0, Type: uint16(16384 + i)}})
		}
		cnt := 1 + k.Index/12%3
		var ins []abs.Payload
		var pos []int
		for i := 0; i < cnt; i++ {
			ins = append(ins, abs.Payload{Kind: types[k.R.Intn(len(types))], Data: k.R.Bytes(k.R.Pick(0, 1, 8)), Crit: k.Index/36%2 == 1 && i == cnt-1})
			pos = append(pos, []int{0, n / 2, n}[(k.Index/12+i)%3])
		}
		sort.Ints(pos)
		c13One(k, base, ins, pos, nil, "many-payloads")
		k.Count("chains_with_many_payloads", 1)
	})
	// unsupported payloads in front of the Encrypted payload of a protected message (cleartext, covered by the checksum):
	// unprotection must give exactly the message without them, or an error if any is critical
	c.Family("before-SK", c.N(36*40, 36*6000), func(k *core.Case) {
		s, init, pre := cell(k.Index % 36)
		raw := libsa.RandomRaw(k.R, s)
		base := gen.Msg(k.R, gen.Opt{Protected: true, MaxPayloads: 3, AllowEmpty: true})
		inner, first, err := ref.EncodeChain(base.Payloads, nil)
		if err != nil {
			return
		}
		n := 1 + k.R.Intn(3)
		var outer []abs.Payload
		anyCrit := false
		for i := 0; i < n; i++ {
			p := abs.Payload{Kind: types[k.R.Intn(len(types))], Data: k.R.Bytes(k.R.Pick(0, 1, 4, 17, 300)), Crit: k.R.Chance(1, 4)}
			anyCrit = anyCrit || p.Crit
			outer = append(outer, p)
		}
		padn := (16 - (len(inner)+1)%16) % 16
		wire, err := ref.ProtectOuter(base, first, inner, s, raw.Dir(init), k.R.Bytes(16), k.R.Bytes(padn), nil, outer)
		if err != nil {
			return
		}
		key, kerr := libsa.NewKey(raw)
		if kerr != nil {
			return
		}
		tr := libsa.Spy(key)
		k.Eval(1)
		d, derr, p := libUnprotect(wire, pre, key, !init)
		w := M{"base": msgJSON(base), "wire": core.HexClip(wire, 2048), "outer_types": insTypes(outer), "any_critical": anyCrit, "suite": s.Name(), "keys": raw.JSON(), "preparsed_header": pre}
		if p != nil {
			k.Violate("panic", "before-SK: "+p.Sig(), "panic", panicData(p, w))
			return
		}
		if anyCrit {
			if derr == nil {
				k.Violate("accepted", "critical-unsupported-accepted/before-SK", "", w)
				return
			}
			k.Count("before_SK_rejected_critical", 1)
		} else {
			if derr != nil {
				k.Violate("decode-error", "noncritical-unsupported-rejected/before-SK: "+classifyErr(derr), errStr(derr), w)
				return
			}
			if !abs.Equal(base, d) {
				k.Violate("mismatch", "skip-changes-message/before-SK: "+diffClass(base, d), "unprotecting a message with skipped payloads in front of SK differs from the message without them: "+abs.Diff(base, d), w)
				return
			}
			if !hasDecrypt(tr.Snapshot()) {
				k.Violate("mismatch", "protected-message-returned-without-unprotection/before-SK", "no Decrypt event although the datagram carries an SK payload", w)
				return
			}
			k.Count("before_SK_skipped_ok", 1)
		}
		if key2, err := libsa.NewKey(raw); err == nil {
			if !c13Again(k, wire, key2, !init, base, anyCrit, w, "before-SK") {
				return
			}
		}
		k.Distinct(fmt.Sprintf("beforeSK|%s|%v|%d|%v", s.Name(), pre, n, anyCrit))
	})
	// unsupported payloads INSIDE the Encrypted payload (the inner chain of a protected message), also as the only
	// content (base message without payloads): same rule after unprotection
	c.Family("inside-SK", c.N(36*40, 36*6000), func(k *core.Case) {
		s, init, pre := cell(k.Index % 36)
		raw := libsa.RandomRaw(k.R, s)
		base := gen.Msg(k.R, gen.Opt{Protected: true, MaxPayloads: 3, AllowEmpty: true})
		if k.Index%4 == 0 {
			base.Payloads = nil
		}
		n := 1 + k.R.Intn(3)
		anyCrit := false
		all := append([]abs.Payload{}, base.Payloads...)
		where := ""
		for i := 0; i < n; i++ {
			p := abs.Payload{Kind: types[k.R.Intn(len(types))], Data: k.R.Bytes(k.R.Pick(0, 1, 4, 17, 300)), Crit: k.R.Chance(1, 5)}
			anyCrit = anyCrit || p.Crit
			pos := k.R.Intn(len(all) + 1)
			all = append(all[:pos], append([]abs.Payload{p}, all[pos:]...)...)
			where += fmt.Sprint(pos, ",")
		}
		inner, first, err := ref.EncodeChain(all, &ref.Opts{Noise: k.R.Byte})
		if err != nil {
			return
		}
		padn := (16 - (len(inner)+1)%16) % 16
		if 4+16+len(inner)+padn+1+s.ICVLen() > 0xffff {
			return
		}
		wire, err := ref.ProtectRaw(base, first, inner, s, raw.Dir(init), k.R.Bytes(16), k.R.Bytes(padn), nil)
		if err != nil {
			return
		}
		key, kerr := libsa.NewKey(raw)
		if kerr != nil {
			return
		}
		k.Eval(1)
		d, derr, p := libUnprotect(wire, pre, key, !init)
		w := M{"base": msgJSON(base), "wire": core.HexClip(wire, 2048), "inserted_at": where, "any_critical": anyCrit, "suite": s.Name(), "keys": raw.JSON(), "preparsed_header": pre}
		if p != nil {
			k.Violate("panic", "inside-SK: "+p.Sig(), "panic", panicData(p, w))
			return
		}
		if anyCrit {
			if derr == nil {
				k.Violate("accepted", "critical-unsupported-accepted/inside-SK", "", w)
				return
			}
			k.Count("inside_SK_rejected_critical", 1)
		} else {
			if derr != nil {
				k.Violate("decode-error", "noncritical-unsupported-rejected/inside-SK: "+classifyErr(derr), errStr(derr), w)
				return
			}
			if !abs.Equal(base, d) {
				k.Violate("mismatch", "skip-changes-message/inside-SK: "+diffClass(base, d), abs.Diff(base, d), w)
				return
			}
			k.Count("inside_SK_skipped_ok", 1)
			if len(base.Payloads) == 0 {
				k.Count("inside_SK_only_unsupported_payloads", 1)
			}
		}
		k.Distinct(fmt.Sprintf("insideSK|%s|%v|%d|%v|%d", s.Name(), pre, n, anyCrit, minI(len(base.Payloads), 2)))
	})
	c.Family("critical-on-implemented", c.N(12000, 3000000), func(k *core.Case) {
		base := gen.Msg(k.R, gen.Opt{MaxPayloads: 5})
		c13One(k, base, nil, nil, &ref.Opts{CritKnown: func() bool { return true }}, "critical-on-implemented")
		k.Count("critical_on_implemented", 1)
		k.Distinct("crit-known|" + abs.Kinds(base))
	})
	c.Require("long_runs_of_unsupported_payloads", "inside_SK_rejected_critical", "inside_SK_skipped_ok", "inside_SK_only_unsupported_payloads", "presented_three_times_with_one_parsed_header", "before_SK_rejected_critical", "before_SK_skipped_ok", "rejected_critical", "skipped_ok", "position_front", "position_middle", "position_end", "critical_on_implemented")
}

var _ = message.TypeSK
