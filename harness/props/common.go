// Package props holds one workload + oracle per property.
package props

import (
	"fmt"
	"math/big"
	"os"
	"strings"

	ike "github.com/free5gc/ike"
	"github.com/free5gc/ike/eap"
	"github.com/free5gc/ike/message"
	"github.com/free5gc/ike/security"

	"verifharness/abs"
	"verifharness/bridge"
	"verifharness/core"
)

type M = map[string]interface{}

// Message-object provenance.  The encodable domain names SPIs, version, exchange type, flags, message ID and the
// payload list; the header's first-payload / length / PayloadBytes bookkeeping is the encoder's business.  A caller
// may therefore hand the encoder an object with any history behind it; the history is picked from the message's
// content so that a case is reproducible.
const (
	provLiteral       = iota // struct literal, bookkeeping zero
	provPlainEncoded         // the object was plain-encoded while it held [first payload, a Nonce]; then the list was completed
	provParsedHeader         // the header object came out of ParseHeader of a received protected datagram (reply on the request's header)
	provDecodedObject        // the whole object came out of Decode of another datagram, then all fields were replaced
	provNewMessage           // message.NewMessage (only for version 2.0 and flags within 0x28)
	nProv
)

var provNames = []string{"literal", "completed-after-plain-encode", "header-parsed-from-a-protected-datagram", "object-decoded-from-another-datagram", "NewMessage"}

// a received protected datagram (header + SK payload with arbitrary ciphertext) and a cleartext one
var (
	someProtectedDatagram = func() []byte {
		body := make([]byte, 4+16+32+12)
		body[0], body[2], body[3] = abs.PNonce, 0, byte(len(body))
		for i := 4; i < len(body); i++ {
			body[i] = byte(i * 7)
		}
		h := []byte{1, 2, 3, 4, 5, 6, 7, 8, 8, 7, 6, 5, 4, 3, 2, 1, abs.PSK, 0x20, 35, 0x08, 0, 0, 0, 9, 0, 0, 0, byte(28 + len(body))}
		return append(h, body...)
	}()
	someCleartextDatagram = []byte{1, 2, 3, 4, 5, 6, 7, 8, 0, 0, 0, 0, 0, 0, 0, 0, abs.PNonce, 0x20, 34, 0x08, 0, 0, 0, 0, 0, 0, 0, 28 + 4 + 20,
		0, 0, 0, 24, 9, 9, 9, 9, 9, 9, 9, 9, 9, 9, 9, 9, 9, 9, 9, 9, 9, 9, 9, 9}
)

// buildMsgObject makes the library object for m with one of the histories above.
func buildMsgObject(m *abs.Msg) (*message.IKEMessage, error) {
	lm, err := bridge.BuildMsg(m)
	if err != nil {
		return nil, err
	}
	prov := int(abs.Hash64(fmt.Sprintf("%d/%d/%d/%d", m.MsgID, m.ISPI, len(m.Payloads), m.Exch)) % nProv)
	set := func(h *message.IKEHeader) {
		h.InitiatorSPI, h.ResponderSPI, h.MajorVersion, h.MinorVersion = m.ISPI, m.RSPI, m.Major, m.Minor
		h.ExchangeType, h.Flags, h.MessageID = m.Exch, m.Flags, m.MsgID
	}
	switch prov {
	case provPlainEncoded:
		full := lm.Payloads
		var stale message.IKEPayloadContainer
		if len(full) > 0 {
			stale = append(stale, full[0])
		}
		stale = append(stale, &message.Nonce{NonceData: []byte("stale stale stale")})
		lm.Payloads = stale
		if _, err := lm.Encode(); err != nil {
			lm, _ = bridge.BuildMsg(m) // first payload alone not encodable here: leave the object fresh
			prov = provLiteral
			break
		}
		lm.Payloads = full
	case provParsedHeader:
		h, err := message.ParseHeader(append([]byte{}, someProtectedDatagram...))
		if err != nil {
			prov = provLiteral
			break
		}
		set(h)
		lm.IKEHeader = h
	case provDecodedObject:
		o := new(message.IKEMessage)
		if err := o.Decode(append([]byte{}, someCleartextDatagram...)); err != nil {
			prov = provLiteral
			break
		}
		set(o.IKEHeader)
		o.Payloads = lm.Payloads
		lm = o
	case provNewMessage:
		if m.Major != 2 || m.Minor != 0 || m.Flags&^0x28 != 0 {
			prov = provLiteral
			break
		}
		lm = message.NewMessage(m.ISPI, m.RSPI, m.Exch, m.Flags&0x20 != 0, m.Flags&0x08 != 0, m.MsgID, lm.Payloads)
	}
	core.GlobalCount("msg_object_" + provNames[prov])
	return lm, nil
}

// libEncode: abs -> library objects -> (*IKEMessage).Encode.
func libEncode(m *abs.Msg) (b []byte, err error, p *core.Panic) {
	p = core.Try(func() {
		var lm *message.IKEMessage
		lm, err = buildMsgObject(m)
		if err != nil {
			err = fmt.Errorf("build: %w", err)
			return
		}
		b, err = lm.Encode()
	})
	return
}

// libDecode: (*IKEMessage).Decode -> abs.
func libDecode(b []byte) (m *abs.Msg, err error, p *core.Panic) {
	p = core.Try(func() {
		lm := new(message.IKEMessage)
		err = lm.Decode(b)
		if err == nil {
			m = bridge.ObserveMsg(lm)
		}
	})
	return
}

func libDecodeKeep(b []byte) (lm *message.IKEMessage, err error, p *core.Panic) {
	p = core.Try(func() {
		lm = new(message.IKEMessage)
		err = lm.Decode(b)
	})
	return
}

func libEAPMarshal(e *abs.EAP) (b []byte, err error, p *core.Panic) {
	p = core.Try(func() {
		var le *eap.EAP
		le, err = bridge.BuildEAP(e)
		if err != nil {
			err = fmt.Errorf("build: %w", err)
			return
		}
		b, err = le.Marshal()
	})
	return
}

func libEAPUnmarshal(b []byte) (e *abs.EAP, err error, p *core.Panic) {
	p = core.Try(func() {
		le := new(eap.EAP)
		err = le.Unmarshal(b)
		if err == nil {
			e = bridge.ObserveEAP(le)
		}
	})
	return
}

// variant names the build this process is (plain | race | asan), set by the runner.
func variant() string {
	if v := os.Getenv("VERIF_VARIANT"); v != "" {
		return v
	}
	return "plain"
}

func role(initiator bool) message.Role {
	if initiator {
		return message.Role_Initiator
	}
	return message.Role_Responder
}

// libProtect: EncodeEncrypt of a freshly built message.
func libProtect(m *abs.Msg, key *security.IKESAKey, initiator bool) (b []byte, err error, p *core.Panic) {
	p = core.Try(func() {
		var lm *message.IKEMessage
		lm, err = buildMsgObject(m)
		if err != nil {
			err = fmt.Errorf("build: %w", err)
			return
		}
		b, err = ike.EncodeEncrypt(lm, key, role(initiator))
	})
	return
}

// libUnprotect: DecodeDecrypt with header nil or pre-parsed from the same bytes.
func libUnprotect(b []byte, preparse bool, key *security.IKESAKey, initiator bool) (m *abs.Msg, err error, p *core.Panic) {
	p = core.Try(func() {
		var hdr *message.IKEHeader
		if preparse {
			hdr, err = message.ParseHeader(b)
			if err != nil {
				err = fmt.Errorf("ParseHeader: %w", err)
				return
			}
		}
		var lm *message.IKEMessage
		lm, err = ike.DecodeDecrypt(b, hdr, key, role(initiator))
		if err == nil {
			if lm == nil {
				// neither a value nor an error: reported through the panic channel so that every caller judges it
				panic("DecodeDecrypt returned (nil message, nil error)")
			}
			m = bridge.ObserveMsg(lm)
		}
	})
	if p != nil && p.Site == "(outside free5gc/ike)" && strings.HasPrefix(p.Value, "DecodeDecrypt returned (nil") {
		p.Site = "github.com/free5gc/ike.DecodeDecrypt"
	}
	return
}

func errStr(e error) string {
	if e == nil {
		return "<nil>"
	}
	s := e.Error()
	if len(s) > 400 {
		s = s[:400] + "..."
	}
	return s
}

func panicData(p *core.Panic, extra M) M {
	d := M{"panic": p.Value, "site": p.Site, "stack": p.Stack}
	for k, v := range extra {
		d[k] = v
	}
	return d
}

func msgJSON(m *abs.Msg) interface{} { return m.Canon() }

func bigFromInt(v int64) *big.Int { return big.NewInt(v) }
