// Package props holds one workload + oracle per property.
package props

import (
	"context"
	"fmt"
	"hash"
	"math/big"
	"os"
	"os/exec"
	"reflect"
	"runtime"
	"strconv"
	"strings"
	"sync/atomic"
	"time"

	ike "github.com/free5gc/ike"
	"github.com/free5gc/ike/eap"
	"github.com/free5gc/ike/message"
	"github.com/free5gc/ike/security"

	"verifharness/abs"
	"verifharness/bridge"
	"verifharness/core"
	"verifharness/gen"
	"verifharness/libsa"
	"verifharness/ref"
)

type M = map[string]interface{}

// Message-object provenance.  The encodable domain names SPIs, version, exchange type, flags, message ID and the
// payload list; the header's first-payload / length / PayloadBytes bookkeeping is the encoder's business.  A caller
// may therefore hand the encoder an object with any history behind it; the history is picked from the message's
// content so that a case is reproducible.
const (
	provLiteral       = iota // struct literal, bookkeeping zero
	provPlainEncoded         // the object was plain-encoded while it held [first payload, a Nonce]; then the list was completed
	provParsedHeader         // the header object came out of ParseHeader of a received protected datagram (reply on the request's header)
	provDecodedObject        // the whole object came out of Decode of another datagram, then all fields were replaced
	provNewMessage           // message.NewMessage (only for version 2.0 and flags within 0x28)
	nProv
)

var provNames = []string{"literal", "completed-after-plain-encode", "header-parsed-from-a-protected-datagram", "object-decoded-from-another-datagram", "NewMessage"}

// a received protected datagram (header + SK payload with arbitrary ciphertext) and a cleartext one
var (
	someProtectedDatagram = func() []byte {
		body := make([]byte, 4+16+32+12)
		body[0], body[2], body[3] = abs.PNonce, 0, byte(len(body))
		for i := 4; i < len(body); i++ {
			body[i] = byte(i * 7)
		}
		h := []byte{1, 2, 3, 4, 5, 6, 7, 8, 8, 7, 6, 5, 4, 3, 2, 1, abs.PSK, 0x20, 35, 0x08, 0, 0, 0, 9, 0, 0, 0, byte(28 + len(body))}
		return append(h, body...)
	}()
	someCleartextDatagram = []byte{1, 2, 3, 4, 5, 6, 7, 8, 0, 0, 0, 0, 0, 0, 0, 0, abs.PNonce, 0x20, 34, 0x08, 0, 0, 0, 0, 0, 0, 0, 28 + 4 + 20,
		0, 0, 0, 24, 9, 9, 9, 9, 9, 9, 9, 9, 9, 9, 9, 9, 9, 9, 9, 9, 9, 9, 9, 9}
)

// buildMsgObject makes the library object for m with one of the histories above.
func buildMsgObject(m *abs.Msg) (*message.IKEMessage, error) {
	shared0 := atomic.LoadInt64(&bridge.SharedTransformObjects)
	lm, err := bridge.BuildMsg(m)
	if err != nil {
		return nil, err
	}
	if atomic.LoadInt64(&bridge.SharedTransformObjects) > shared0 {
		core.GlobalCount("msg_objects_with_a_transform_object_referenced_more_than_once")
	}
	prov := int(abs.Hash64(fmt.Sprintf("%d/%d/%d/%d", m.MsgID, m.ISPI, len(m.Payloads), m.Exch)) % nProv)
	set := func(h *message.IKEHeader) {
		h.InitiatorSPI, h.ResponderSPI, h.MajorVersion, h.MinorVersion = m.ISPI, m.RSPI, m.Major, m.Minor
		h.ExchangeType, h.Flags, h.MessageID = m.Exch, m.Flags, m.MsgID
	}
	switch prov {
	case provPlainEncoded:
		full := lm.Payloads
		var stale message.IKEPayloadContainer
		if len(full) > 0 {
			stale = append(stale, full[0])
		}
		stale = append(stale, &message.Nonce{NonceData: []byte("stale stale stale")})
		lm.Payloads = stale
		if _, err := lm.Encode(); err != nil {
			lm, _ = bridge.BuildMsg(m) // first payload alone not encodable here: leave the object fresh
			prov = provLiteral
			break
		}
		lm.Payloads = full
	case provParsedHeader:
		dg := append([]byte{}, someProtectedDatagram...)
		echo := hashMsg(m)%2 == 0
		if echo {
			// ... and the reply's byte fields are views INTO that received datagram (echoed without copying)
			dg = append(dg[:28:28], make([]byte, bridge.Size(m.Payloads)+64)...)
		}
		h, err := message.ParseHeader(dg)
		if err != nil {
			prov = provLiteral
			break
		}
		if echo {
			if pl, perr := bridge.BuildPayloadsIn(m.Payloads, dg[28:]); perr == nil {
				lm.Payloads = pl
				core.GlobalCount("msg_object_reply_fields_are_views_of_the_received_datagram")
			}
		}
		set(h)
		lm.IKEHeader = h
	case provDecodedObject:
		o := new(message.IKEMessage)
		if err := o.Decode(append([]byte{}, someCleartextDatagram...)); err != nil {
			prov = provLiteral
			break
		}
		set(o.IKEHeader)
		o.Payloads = lm.Payloads
		lm = o
	case provNewMessage:
		if m.Major != 2 || m.Minor != 0 || m.Flags&^0x28 != 0 {
			prov = provLiteral
			break
		}
		lm = message.NewMessage(m.ISPI, m.RSPI, m.Exch, m.Flags&0x20 != 0, m.Flags&0x08 != 0, m.MsgID, lm.Payloads)
	}
	core.GlobalCount("msg_object_" + provNames[prov])
	if hashMsg(m)%5 == 0 {
		pokeAccessors(lm) // the application logs / dispatches on the message before sending it
	}
	return lm, nil
}

// ---------------------------------------------------------------------------
// Unrelated library activity and "sibling" calls around the operation under test.  The properties speak about
// single operations; a process that uses the library does many other things in between.  Package-level state,
// caches keyed by part of the input, state left behind by an error path or by another entry point would show
// only then.  Everything here is derived from the content of the input (reproducible), uses its own objects,
// and draws nothing from crypto/rand (so that the deterministic-random-stream monitors are not disturbed).

var noiseKeyRaw = libsa.Raw{Suite: ref.Suite{EncKeyLen: 16, Integ: ref.HSHA1}, Prf: ref.HSHA1, K: ref.IKEKeys{
	D: make([]byte, 20), Ai: []byte("noise-integ-key-i..."), Ar: []byte("noise-integ-key-r..."), Ei: []byte("noise-encr-key-i"), Er: []byte("noise-encr-key-r"),
	Pi: make([]byte, 20), Pr: make([]byte, 20)}}

func noise(seed uint64) {
	r := core.NewRng(seed, 0x6e6f697365)
	core.Try(func() {
		switch r.Intn(12) {
		case 11: // the application LOGS type codes it met (known and unknown ones): String() / %v of every enum-like type
			logTypeCodes(r.Intn(256), 1+r.Intn(6))
		case 9: // a garbage collection (empties sync.Pools, runs finalizers, may move nothing but changes timing)
			if r.Chance(1, 8) {
				runtime.GC()
				core.GlobalCount("garbage_collections_forced_in_between")
			}
		case 0: // encode another message
			if lm, err := bridge.BuildMsg(gen.Msg(r, gen.Opt{MaxPayloads: 3})); err == nil {
				_, _ = lm.Encode()
			}
		case 1: // decode garbage / a truncated datagram (error paths)
			b, _ := ref.EncodeMsg(gen.Msg(r, gen.Opt{MaxPayloads: 3}), nil)
			if len(b) > 30 && r.Bool() {
				b = b[:28+r.Intn(len(b)-28)]
			} else {
				b = r.Bytes(r.Intn(90))
			}
			_ = new(message.IKEMessage).Decode(b)
		case 2: // derive keys of another SA
			k := newInfoKey(r.Intn(3), r.Intn(3), r.Intn(3), 0)
			if k.GenerateKeyForIKESA(r.Bytes(32), r.Bytes(128), r.U64(), r.U64()) == nil {
				ck := newChild(r.Intn(3), r.Intn(4))
				_ = ck.GenerateKeyForChildSA(k, r.Bytes(32))
			}
		case 3:
			_, _, _, _, _, _ = eap.EapAkaPrimePRF(r.Bytes(16), r.Bytes(16), string(r.Bytes(r.Intn(30))))
		case 4: // another EAP-AKA' packet: marshal, MAC, unmarshal
			if le, err := bridge.BuildEAP(&abs.EAP{Code: 1, ID: r.Byte(), Method: &abs.Method{Type: abs.MAkaPrime, AKA: gen.AKAWith(r, 1, r.Intn(128)|8)}}); err == nil {
				_, _ = le.CalcEapAkaPrimeAtMAC(r.Bytes(32))
				if b, err := le.Marshal(); err == nil {
					_ = new(eap.EAP).Unmarshal(b)
				}
			}
		case 5, 6: // unprotect another SA's genuine (5) / tampered (6) message
			m := gen.Msg(r, gen.Opt{Protected: true, MaxPayloads: 2})
			inner, first, err := ref.EncodeChain(m.Payloads, nil)
			if err != nil || len(inner) > 4000 {
				return
			}
			padn := (16 - (len(inner)+1)%16) % 16
			w, err := ref.ProtectRaw(m, first, inner, noiseKeyRaw.Suite, noiseKeyRaw.Dir(true), r.Bytes(16), r.Bytes(padn), nil)
			if err != nil {
				return
			}
			if r.Bool() {
				w[len(w)-1-r.Intn(len(w)-28)] ^= 0x10
			}
			if k, err := libsa.NewKey(noiseKeyRaw); err == nil {
				_, _ = ike.DecodeDecrypt(w, nil, k, message.Role_Responder)
			}
		case 7: // an encode that is refused part-way
			bad := &message.IKEMessage{IKEHeader: &message.IKEHeader{MajorVersion: 2, ExchangeType: 34}, Payloads: message.IKEPayloadContainer{
				&message.Nonce{NonceData: r.Bytes(16)},
				&message.SecurityAssociation{Proposals: message.ProposalContainer{&message.Proposal{ProposalNumber: 1, ProtocolID: 1,
					EncryptionAlgorithm: message.TransformContainer{{TransformType: 1, TransformID: 12, AttributePresent: true, AttributeFormat: 1, AttributeType: 14, AttributeValue: 128}}}, {ProposalNumber: 2}}},
				&message.TrafficSelectorInitiator{TrafficSelectors: message.IndividualTrafficSelectorContainer{{TSType: 7, StartAddress: r.Bytes(3), EndAddress: r.Bytes(4)}}}}}
			_, _ = bad.Encode()
		case 8: // calls that are refused: EAP packets that cannot be encoded, setter / builder arguments out of range
			_, _ = (&eap.EAP{Code: 1, Identifier: r.Byte(), EapTypeData: &eap.EapIdentity{}}).Marshal()
			_, _ = (&eap.EAP{Code: 2, Identifier: r.Byte(), EapTypeData: &eap.EapNak{}}).Marshal()
			_ = eap.NewEapAkaPrime(1).SetAttr(eap.AT_RAND, r.Bytes(3))
			var c message.IKEPayloadContainer
			_ = c.BuildNotify5G_QOS_INFO(r.Byte(), make([]uint8, 300), true, false, 0)
			_ = c.BuildEAP5GNAS(r.Byte(), make([]byte, 70000))
			_, _, _, _, _, _ = eap.EapAkaPrimePRF(nil, r.Bytes(16), "x")
			if k, err := libsa.NewKey(noiseKeyRaw); err == nil {
				_, _ = k.Encr_i.Decrypt(r.Bytes(17))
			}
		default: // algorithm registry / proposal traffic
			k := newInfoKey(r.Intn(3), r.Intn(3), r.Intn(3), r.Intn(2))
			_, _ = k.ToProposal() // (NewIKESAKey would draw a DH secret from crypto/rand: not here)
			ck := newChild(r.Intn(3), r.Intn(4))
			if p, err := ck.ToProposal(); err == nil {
				_, _ = security.NewChildSAKeyByProposal(p)
			}
		}
	})
	core.GlobalCount("unrelated_library_operations_in_between")
}

// noiseFor: unrelated activity before about every third case of a workload that does not go through the wrappers below.
// logTypeCodes formats n consecutive code points of each of the library's enum-like types, starting at `from`.
func logTypeCodes(from, n int) {
	for i := 0; i < n; i++ {
		c := uint8(from + i)
		core.Try(func() {
			_ = message.IkePayloadType(c).String()
			_ = fmt.Sprintf("%v %s", eap.EapType(c), eap.EapAkaPrimeAttrType(c))
		})
	}
	core.GlobalCount("type_codes_logged_by_the_application")
}

func noiseFor(k *core.Case) {
	if k.Index%3 == 1 {
		noise(uint64(k.Index)*0x9e3779b97f4a7c15 ^ core.StrSeed(k.Family))
		if k.Index%2 == 1 { // and specifically a refused call right before the operation under test
			noise8()
		}
	}
}

func noise8() {
	core.Try(func() {
		_, _ = (&eap.EAP{Code: 1, Identifier: 1, EapTypeData: &eap.EapIdentity{}}).Marshal()
		_ = eap.NewEapAkaPrime(1).SetAttr(eap.AT_MAC, nil)
		var c message.IKEPayloadContainer
		_ = c.BuildNotify5G_QOS_INFO(7, make([]uint8, 300), true, false, 0)
		_ = c.BuildEAP5GNAS(9, make([]byte, 70000))
	})
	core.GlobalCount("refused_calls_right_before_the_operation")
}

// around runs unrelated activity / a sibling call before the operation under test, for about a third of the inputs.
func around(h uint64, sibling func()) {
	switch h % 6 {
	case 0:
		noise(h)
	case 1:
		if sibling != nil {
			core.Try(sibling)
			core.GlobalCount("sibling_calls_before_the_operation")
		}
	}
}

// scribbleObject edits, in place, everything reachable through exported fields of a library-returned object (what an
// application does when it narrows a decoded offer, fills in its SPI, wipes a message before recycling it).
func scribbleObject(v interface{}) {
	seen := map[uintptr]bool{}
	var walk func(v reflect.Value, depth int)
	walk = func(v reflect.Value, depth int) {
		if depth > 12 || !v.IsValid() {
			return
		}
		switch v.Kind() {
		case reflect.Ptr:
			if v.IsNil() || seen[v.Pointer()] {
				return
			}
			seen[v.Pointer()] = true
			walk(v.Elem(), depth+1)
		case reflect.Interface:
			if !v.IsNil() {
				walk(v.Elem(), depth+1)
			}
		case reflect.Struct:
			for i := 0; i < v.NumField(); i++ {
				if v.Type().Field(i).PkgPath == "" { // exported
					walk(v.Field(i), depth+1)
				}
			}
		case reflect.Slice:
			if v.Type().Elem().Kind() == reflect.Uint8 {
				b := v.Bytes()
				for i := range b {
					b[i] ^= 0xA5
				}
				return
			}
			for i := 0; i < v.Len(); i++ {
				walk(v.Index(i), depth+1)
			}
		case reflect.Uint8, reflect.Uint16, reflect.Uint32, reflect.Uint64, reflect.Uint:
			if v.CanSet() {
				v.SetUint(v.Uint() ^ 0x5A)
			}
		case reflect.Bool:
			if v.CanSet() {
				v.SetBool(!v.Bool())
			}
		}
	}
	walk(reflect.ValueOf(v), 0)
}

// pokeAccessors calls the exported niladic read-only helpers (Type, String, Is..., Get..., TransformID, ...) of an object
// and of everything reachable from it: what logging and dispatch code does all the time; they must have no effect.
func pokeAccessors(v interface{}) {
	seen := map[uintptr]bool{}
	okName := func(n string) bool {
		for _, p := range []string{"Type", "String", "Is", "Get", "TransformID", "SubType", "Len", "Priority"} {
			if strings.HasPrefix(n, p) {
				return true
			}
		}
		return false
	}
	var walk func(v reflect.Value, depth int)
	call := func(v reflect.Value) {
		t := v.Type()
		for i := 0; i < t.NumMethod(); i++ {
			m := t.Method(i)
			if m.Type.NumIn() == 1 && okName(m.Name) {
				core.Try(func() { v.Method(i).Call(nil) })
			}
		}
	}
	walk = func(v reflect.Value, depth int) {
		if depth > 10 || !v.IsValid() {
			return
		}
		switch v.Kind() {
		case reflect.Ptr:
			if v.IsNil() || seen[v.Pointer()] {
				return
			}
			seen[v.Pointer()] = true
			call(v)
			walk(v.Elem(), depth+1)
		case reflect.Interface:
			if !v.IsNil() {
				walk(v.Elem(), depth+1)
			}
		case reflect.Struct:
			for i := 0; i < v.NumField(); i++ {
				if v.Type().Field(i).PkgPath == "" {
					walk(v.Field(i), depth+1)
				}
			}
		case reflect.Slice:
			if v.Type().Elem().Kind() == reflect.Uint8 {
				return
			}
			for i := 0; i < v.Len() && i < 40; i++ {
				walk(v.Index(i), depth+1)
			}
		}
	}
	walk(reflect.ValueOf(v), 0)
	core.GlobalCount("objects_whose_accessors_were_called")
	if k, ok := v.(*security.IKESAKey); ok && k != nil {
		useKeyedMACs(k)
	}
}

// useKeyedMACs: the application computes a MAC of its own with the SA's exported, keyed integrity objects - the way
// the library itself (and the repository's tests) use them: Reset, Write, Sum. The object is left with the written
// octets buffered (Sum does not reset), which is the state every hash.Hash user must expect to find it in.
var macUses uint64

func useKeyedMACs(k *security.IKESAKey) {
	for _, h := range []hash.Hash{k.Integ_i, k.Integ_r} {
		if h == nil {
			continue
		}
		core.Try(func() {
			h.Reset()
			h.Write([]byte(fmt.Sprintf("application self-check over its own octets #%d", atomic.AddUint64(&macUses, 1))))
			h.Sum(nil)
		})
	}
	core.GlobalCount("sa_integrity_objects_used_directly_by_the_application")
}

// ---------------------------------------------------------------------------
// Fresh-process cases: `vharness fresh <prop> <i> <rep>` runs ONE registered case as the very first use of the library
// in a new process (lazily initialised state, pools that adapt to the first big input, a fault at first use, first
// calls that overlap on several goroutines).  The family starts one child per case and repetition.

type freshCase struct {
	name string
	f    func(rep int) string // "" = held
}

var freshCases = map[string][]freshCase{}
var freshHung = map[string]bool{}

func registerFresh(prop string, cs ...freshCase) { freshCases[prop] = append(freshCases[prop], cs...) }

// Fresh is the child side.
func Fresh(prop string, i, rep int) string {
	l := freshCases[prop]
	if i < 0 || i >= len(l) {
		return "FRESH none"
	}
	bad := ""
	if p := core.Try(func() { bad = l[i].f(rep) }); p != nil {
		bad = "panic: " + p.Value + " @ " + p.Site
	}
	if bad != "" {
		return "FRESH bad " + l[i].name + ": " + bad
	}
	return "FRESH ok " + l[i].name
}

// freshFamily is the parent side.
func freshFamily(c *core.Ctx, prop, family string, reps int) {
	n := len(freshCases[prop])
	c.Family(family, n*reps, func(k *core.Case) {
		k.Eval(1)
		i, rep := k.Index%n, k.Index/n
		if freshHung[prop+"/"+freshCases[prop][i].name] {
			k.Count("fresh_process_case_skipped_after_it_hung_twice", 1)
			return
		}
		// a child that does not come back is given a second, longer chance; only a reproduced expiry is a verdict
		var out []byte
		var err error
		timedOut := 0
		for _, limit := range []time.Duration{90 * time.Second, 200 * time.Second} {
			ctx, cancel := context.WithTimeout(context.Background(), limit)
			cmd := exec.CommandContext(ctx, os.Args[0], "fresh", prop, strconv.Itoa(i), strconv.Itoa(rep))
			out, err = cmd.CombinedOutput()
			expired := ctx.Err() == context.DeadlineExceeded
			cancel()
			if !expired {
				break
			}
			timedOut++
		}
		if timedOut == 2 {
			freshHung[prop+"/"+freshCases[prop][i].name] = true
			k.Violate("no-return", "fresh-process-case-does-not-return/"+freshCases[prop][i].name, "the child process did not finish within 90 s and again not within 200 s (alone the case takes well under a second)", M{"case": freshCases[prop][i].name, "rep": rep, "output": clipS(string(out), 3000)})
			return
		}
		if timedOut == 1 {
			k.Count("fresh_process_case_slow_once(load)", 1)
		}
		text := string(out)
		line := ""
		for _, l := range strings.Split(text, "\n") {
			if strings.HasPrefix(l, "FRESH ") {
				line = strings.TrimSpace(l)
			}
		}
		name := freshCases[prop][i].name
		switch {
		case strings.Contains(text, "WARNING: DATA RACE"):
			k.Violate("race", "data-race-in-a-fresh-process/"+name, "race detector report in the child process", M{"case": name, "rep": rep, "output": clipS(text, 6000)})
		case strings.Contains(text, "fatal error:"):
			k.Violate("fatal", "fatal-error-in-a-fresh-process/"+name, "the Go runtime stopped the child process", M{"case": name, "rep": rep, "output": clipS(text, 6000)})
		case strings.HasPrefix(line, "FRESH bad"):
			k.Violate("fresh-process", "differs-in-a-fresh-process/"+name, line, M{"case": name, "rep": rep})
		case err == nil && strings.HasPrefix(line, "FRESH ok"):
			k.Count("fresh_process_cases_ok", 1)
			k.Distinct("fresh|" + name)
		default:
			k.Inconclusive("fresh-process child %s/%d: %v %s", name, rep, err, clipS(text, 300))
		}
	})
}

// siblingMsg agrees with m in everything a careless cache key might look at (header fields, first payload, number of
// payloads where possible) but differs in content.
func siblingMsg(m *abs.Msg) *abs.Msg {
	s := *m
	s.Payloads = append([]abs.Payload{}, m.Payloads...)
	if n := len(s.Payloads); n > 0 && s.Payloads[n-1].Kind != abs.PNonce {
		s.Payloads[n-1] = abs.Payload{Kind: abs.PNonce, Data: []byte("sibling nonce....")}
	} else {
		s.Payloads = append(s.Payloads, abs.Payload{Kind: abs.PVendor, Data: []byte("sibling")})
	}
	return &s
}

func hashBytes(b []byte) uint64 {
	h := uint64(1469598103934665603)
	for _, c := range b {
		h = (h ^ uint64(c)) * 1099511628211
	}
	return h ^ uint64(len(b))
}

func hashMsg(m *abs.Msg) uint64 {
	return abs.Hash64(fmt.Sprintf("%d/%d/%d/%d/%d/%s", m.MsgID, m.ISPI, m.RSPI, m.Exch, m.Flags, abs.Kinds(m)))
}

// libEncode: abs -> library objects -> (*IKEMessage).Encode.
func libEncode(m *abs.Msg) (b []byte, err error, p *core.Panic) {
	around(hashMsg(m), func() {
		if lm, err := bridge.BuildMsg(siblingMsg(m)); err == nil {
			_, _ = lm.Encode()
		}
	})
	p = core.Try(func() {
		var lm *message.IKEMessage
		lm, err = buildMsgObject(m)
		if err != nil {
			err = fmt.Errorf("build: %w", err)
			return
		}
		b, err = lm.Encode()
	})
	return
}

// libDecode: (*IKEMessage).Decode -> abs.
func libDecode(b []byte) (m *abs.Msg, err error, p *core.Panic) {
	around(hashBytes(b), func() { // same header, body altered in one octet / cut
		if len(b) > 29 {
			sb := append([]byte{}, b...)
			sb[28+int(hashBytes(b)>>8)%(len(b)-28)] ^= 0x04
			_ = new(message.IKEMessage).Decode(sb)
		}
		// the same datagram was decoded before and the application edited what it got
		if o := new(message.IKEMessage); o.Decode(append([]byte{}, b...)) == nil {
			scribbleObject(o)
		}
	})
	p = core.Try(func() {
		lm := new(message.IKEMessage)
		err = lm.Decode(b)
		if err == nil {
			if hashBytes(b)%5 == 2 {
				pokeAccessors(lm) // the application logs what it received before looking at it
			}
			m = bridge.ObserveMsg(lm)
		}
	})
	return
}

func libDecodeKeep(b []byte) (lm *message.IKEMessage, err error, p *core.Panic) {
	p = core.Try(func() {
		lm = new(message.IKEMessage)
		err = lm.Decode(b)
	})
	return
}

func libEAPMarshal(e *abs.EAP) (b []byte, err error, p *core.Panic) {
	around(abs.Hash64(e.JSON()), nil)
	p = core.Try(func() {
		var le *eap.EAP
		le, err = bridge.BuildEAP(e)
		if err != nil {
			err = fmt.Errorf("build: %w", err)
			return
		}
		b, err = le.Marshal()
	})
	return
}

// someAkaPacket: a well-formed EAP-AKA' challenge with its attributes in DESCENDING type order (what another peer sent before)
var someAkaPacket = func() []byte {
	body := []byte{50, 1, 0, 0}
	body = append(body, 24, 1, 0, 1)                                                  // AT_KDF
	body = append(body, append([]byte{23, 2, 0, 4}, []byte("5G:x")...)...)            // AT_KDF_INPUT
	body = append(body, append([]byte{11, 5, 0, 0}, make([]byte, 16)...)...)          // AT_MAC
	body = append(body, append([]byte{2, 5, 0, 0}, []byte("AUTNAUTNAUTNAUTN")...)...) // AT_AUTN
	body = append(body, append([]byte{1, 5, 0, 0}, []byte("RANDRANDRANDRAND")...)...) // AT_RAND
	p := append([]byte{1, 99, 0, 0}, body...)
	p[2], p[3] = byte(len(p)>>8), byte(len(p))
	return p
}()

// usedEAP returns the object a receiver decodes into: a new one, or one that already decoded another peer's packet
func usedEAP(h uint64) *eap.EAP {
	le := new(eap.EAP)
	if h%3 == 1 {
		if le.Unmarshal(append([]byte{}, someAkaPacket...)) == nil {
			core.GlobalCount("eap_objects_reused_for_a_second_decode")
		} else {
			le = new(eap.EAP)
		}
	}
	return le
}

func libEAPUnmarshal(b []byte) (e *abs.EAP, err error, p *core.Panic) {
	around(hashBytes(b)+2, func() {
		if len(b) > 6 {
			sb := append([]byte{}, b...)
			sb[5+int(hashBytes(b)>>8)%(len(b)-5)] ^= 0x04
			_ = new(eap.EAP).Unmarshal(sb)
		}
		if o := new(eap.EAP); o.Unmarshal(append([]byte{}, b...)) == nil {
			scribbleObject(o)
		}
	})
	p = core.Try(func() {
		le := usedEAP(hashBytes(b) >> 3)
		err = le.Unmarshal(b)
		if err == nil {
			e = bridge.ObserveEAP(le)
		}
	})
	return
}

// variant names the build this process is (plain | race | asan), set by the runner.
func variant() string {
	if v := os.Getenv("VERIF_VARIANT"); v != "" {
		return v
	}
	return "plain"
}

func role(initiator bool) message.Role {
	if initiator {
		return message.Role_Initiator
	}
	return message.Role_Responder
}

// libProtect: EncodeEncrypt of a freshly built message.
func libProtect(m *abs.Msg, key *security.IKESAKey, initiator bool) (b []byte, err error, p *core.Panic) {
	around(hashMsg(m)+1, func() { // the sibling goes out in the clear through the same entry point
		if lm, err := bridge.BuildMsg(siblingMsg(m)); err == nil {
			_, _ = ike.EncodeEncrypt(lm, nil, role(initiator))
		}
	})
	p = core.Try(func() {
		var lm *message.IKEMessage
		lm, err = buildMsgObject(m)
		if err != nil {
			err = fmt.Errorf("build: %w", err)
			return
		}
		b, err = ike.EncodeEncrypt(lm, key, role(initiator))
	})
	return
}

// preparsedHeader gives the header object a receiver has in hand when it calls DecodeDecrypt(datagram, header, ...):
// parsed from the datagram slice itself; parsed from a 28-octet peek (PayloadBytes empty); or filled in by hand
// from the header fields (PayloadBytes nil).  The datagram argument is the authority for the payload octets.
func preparsedHeader(b []byte) (*message.IKEHeader, error) {
	h, err := message.ParseHeader(b)
	if err != nil {
		return nil, err
	}
	switch hashBytes(b) >> 16 % 4 {
	case 3:
		// parsed from the socket buffer, which has been reused since (the datagram itself was queued as a copy)
		rx := append([]byte{}, b...)
		h2, err := message.ParseHeader(rx)
		if err != nil {
			return nil, err
		}
		for i := 28; i < len(rx); i++ {
			rx[i] ^= 0x6b
		}
		core.GlobalCount("preparsed_header_from_a_buffer_reused_since")
		return h2, nil
	case 1:
		core.GlobalCount("preparsed_header_from_28_octet_peek")
		return message.ParseHeader(append([]byte{}, b[:28]...))
	case 2:
		core.GlobalCount("preparsed_header_filled_in_by_hand")
		return &message.IKEHeader{InitiatorSPI: h.InitiatorSPI, ResponderSPI: h.ResponderSPI, NextPayload: h.NextPayload, MajorVersion: h.MajorVersion,
			MinorVersion: h.MinorVersion, ExchangeType: h.ExchangeType, Flags: h.Flags, MessageID: h.MessageID}, nil
	}
	core.GlobalCount("preparsed_header_from_the_datagram_slice")
	return h, nil
}

// libUnprotect: DecodeDecrypt with header nil or pre-parsed from the same bytes.
func libUnprotect(b []byte, preparse bool, key *security.IKESAKey, initiator bool) (m *abs.Msg, err error, p *core.Panic) {
	around(hashBytes(b)+1, func() { // the same octets through the plain decoder, and under another SA's keys
		_ = new(message.IKEMessage).Decode(append([]byte{}, b...))
		if k, err := libsa.NewKey(noiseKeyRaw); err == nil {
			_, _ = ike.DecodeDecrypt(append([]byte{}, b...), nil, k, role(initiator))
		}
	})
	p = core.Try(func() {
		var hdr *message.IKEHeader
		if preparse {
			hdr, err = preparsedHeader(b)
			if err != nil {
				err = fmt.Errorf("ParseHeader: %w", err)
				return
			}
		}
		var lm *message.IKEMessage
		lm, err = ike.DecodeDecrypt(b, hdr, key, role(initiator))
		if err == nil {
			if lm == nil {
				// neither a value nor an error: reported through the panic channel so that every caller judges it
				panic("DecodeDecrypt returned (nil message, nil error)")
			}
			if hashBytes(b)%5 == 2 {
				pokeAccessors(lm)
			}
			m = bridge.ObserveMsg(lm)
			recycle(lm)
		}
	})
	if p != nil && p.Site == "(outside free5gc/ike)" && strings.HasPrefix(p.Value, "DecodeDecrypt returned (nil") {
		p.Site = "github.com/free5gc/ike.DecodeDecrypt"
	}
	return
}

// libUnprotectWith: DecodeDecrypt with a header object the caller already holds (kept from an earlier presentation).
func libUnprotectWith(b []byte, hdr *message.IKEHeader, key *security.IKESAKey, initiator bool) (m *abs.Msg, err error, p *core.Panic) {
	p = core.Try(func() {
		var lm *message.IKEMessage
		lm, err = ike.DecodeDecrypt(b, hdr, key, role(initiator))
		if err == nil {
			if lm == nil {
				panic("DecodeDecrypt returned (nil message, nil error)")
			}
			m = bridge.ObserveMsg(lm)
			// (no recycle here: the message shares the header object the caller keeps for the next presentation)
		}
	})
	if p != nil && p.Site == "(outside free5gc/ike)" && strings.HasPrefix(p.Value, "DecodeDecrypt returned (nil") {
		p.Site = "github.com/free5gc/ike.DecodeDecrypt"
	}
	return
}

// recycle: the application is done with a message object the library returned and reuses / wipes it (the observed
// value above is a deep copy).  PayloadBytes is the documented view of the caller's own datagram: dropped, not wiped.
func recycle(lm *message.IKEMessage) {
	if lm.IKEHeader != nil {
		lm.IKEHeader.PayloadBytes = nil
	}
	scribbleObject(lm)
}

func errStr(e error) string {
	if e == nil {
		return "<nil>"
	}
	s := e.Error()
	if len(s) > 400 {
		s = s[:400] + "..."
	}
	return s
}

func panicData(p *core.Panic, extra M) M {
	d := M{"panic": p.Value, "site": p.Site, "stack": p.Stack}
	for k, v := range extra {
		d[k] = v
	}
	return d
}

func msgJSON(m *abs.Msg) interface{} { return m.Canon() }

func bigFromInt(v int64) *big.Int { return big.NewInt(v) }
