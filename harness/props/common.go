// Package props holds one workload + oracle per property.
package props

import (
	"fmt"
	"math/big"
	"os"
	"strings"

	ike "github.com/free5gc/ike"
	"github.com/free5gc/ike/eap"
	"github.com/free5gc/ike/message"
	"github.com/free5gc/ike/security"

	"verifharness/abs"
	"verifharness/bridge"
	"verifharness/core"
)

type M = map[string]interface{}

// libEncode: abs -> library objects -> (*IKEMessage).Encode.
func libEncode(m *abs.Msg) (b []byte, err error, p *core.Panic) {
	p = core.Try(func() {
		var lm *message.IKEMessage
		lm, err = bridge.BuildMsg(m)
		if err != nil {
			err = fmt.Errorf("build: %w", err)
			return
		}
		b, err = lm.Encode()
	})
	return
}

// libDecode: (*IKEMessage).Decode -> abs.
func libDecode(b []byte) (m *abs.Msg, err error, p *core.Panic) {
	p = core.Try(func() {
		lm := new(message.IKEMessage)
		err = lm.Decode(b)
		if err == nil {
			m = bridge.ObserveMsg(lm)
		}
	})
	return
}

func libDecodeKeep(b []byte) (lm *message.IKEMessage, err error, p *core.Panic) {
	p = core.Try(func() {
		lm = new(message.IKEMessage)
		err = lm.Decode(b)
	})
	return
}

func libEAPMarshal(e *abs.EAP) (b []byte, err error, p *core.Panic) {
	p = core.Try(func() {
		var le *eap.EAP
		le, err = bridge.BuildEAP(e)
		if err != nil {
			err = fmt.Errorf("build: %w", err)
			return
		}
		b, err = le.Marshal()
	})
	return
}

func libEAPUnmarshal(b []byte) (e *abs.EAP, err error, p *core.Panic) {
	p = core.Try(func() {
		le := new(eap.EAP)
		err = le.Unmarshal(b)
		if err == nil {
			e = bridge.ObserveEAP(le)
		}
	})
	return
}

// variant names the build this process is (plain | race | asan), set by the runner.
func variant() string {
	if v := os.Getenv("VERIF_VARIANT"); v != "" {
		return v
	}
	return "plain"
}

func role(initiator bool) message.Role {
	if initiator {
		return message.Role_Initiator
	}
	return message.Role_Responder
}

// libProtect: EncodeEncrypt of a freshly built message.
func libProtect(m *abs.Msg, key *security.IKESAKey, initiator bool) (b []byte, err error, p *core.Panic) {
	p = core.Try(func() {
		var lm *message.IKEMessage
		lm, err = bridge.BuildMsg(m)
		if err != nil {
			err = fmt.Errorf("build: %w", err)
			return
		}
		b, err = ike.EncodeEncrypt(lm, key, role(initiator))
	})
	return
}

// libUnprotect: DecodeDecrypt with header nil or pre-parsed from the same bytes.
func libUnprotect(b []byte, preparse bool, key *security.IKESAKey, initiator bool) (m *abs.Msg, err error, p *core.Panic) {
	p = core.Try(func() {
		var hdr *message.IKEHeader
		if preparse {
			hdr, err = message.ParseHeader(b)
			if err != nil {
				err = fmt.Errorf("ParseHeader: %w", err)
				return
			}
		}
		var lm *message.IKEMessage
		lm, err = ike.DecodeDecrypt(b, hdr, key, role(initiator))
		if err == nil {
			if lm == nil {
				// neither a value nor an error: reported through the panic channel so that every caller judges it
				panic("DecodeDecrypt returned (nil message, nil error)")
			}
			m = bridge.ObserveMsg(lm)
		}
	})
	if p != nil && p.Site == "(outside free5gc/ike)" && strings.HasPrefix(p.Value, "DecodeDecrypt returned (nil") {
		p.Site = "github.com/free5gc/ike.DecodeDecrypt"
	}
	return
}

func errStr(e error) string {
	if e == nil {
		return "<nil>"
	}
	s := e.Error()
	if len(s) > 400 {
		s = s[:400] + "..."
	}
	return s
}

func panicData(p *core.Panic, extra M) M {
	d := M{"panic": p.Value, "site": p.Site, "stack": p.Stack}
	for k, v := range extra {
		d[k] = v
	}
	return d
}

func msgJSON(m *abs.Msg) interface{} { return m.Canon() }

func bigFromInt(v int64) *big.Int { return big.NewInt(v) }
