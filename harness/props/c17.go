package props

import (
	"bytes"
	"fmt"
	"strings"

	"github.com/free5gc/ike/security"

	"verifharness/abs"
	"verifharness/core"
	"verifharness/gen"
	"verifharness/libsa"
	"verifharness/mon"
	"verifharness/ref"
)

func init() { core.Register("C17", c17) }

const (
	opPI = iota // protect as initiator
	opPR        // protect as responder
	opUG        // unprotect a genuine message from a fresh peer
	opUT        // unprotect a tampered / truncated / garbage message
	opDC        // derive a Child SA
	opRT        // the last accepted genuine datagram arrives again, bit for bit (retransmission)
	opUC        // a datagram with a VALID checksum whose content the cipher must refuse (a buggy or malicious peer holding the keys)
	nOps
)

var opNames = []string{"protectI", "protectR", "unprotGenuine", "unprotForged", "deriveChild", "retransmission", "unprotUndecryptable"}

type stepResult struct {
	wire   []byte   // protect
	msg    *abs.Msg // unprotect
	err    bool
	child  [4][]byte
	panicS string
}

func (a stepResult) equal(b stepResult) string {
	if a.panicS != b.panicS {
		return "panic: " + a.panicS + " vs " + b.panicS
	}
	if a.err != b.err {
		return fmt.Sprintf("error-ness differs: long-lived=%v fresh=%v", a.err, b.err)
	}
	if !bytes.Equal(a.wire, b.wire) {
		return "protected bytes differ"
	}
	if (a.msg == nil) != (b.msg == nil) || (a.msg != nil && !abs.Equal(a.msg, b.msg)) {
		return "unprotected message differs"
	}
	for i := range a.child {
		if !bytes.Equal(a.child[i], b.child[i]) {
			return "child keys differ"
		}
	}
	return ""
}

// traceSpecStep checks the spy trace of one step on the long-lived object.
func traceSpecStep(op int, ev []mon.Event, res stepResult, presented []byte, receiverInit bool, icv int) string {
	switch op {
	case opPI, opPR:
		return senderTraceSpec(ev, op == opPI, res.wire, icv)
	case opDC:
		for _, e := range ev {
			if e.Obj != "Prf_d" {
				return "child derivation touched " + e.Obj
			}
		}
		// every prf+ block: Reset, Write, Sum
		if len(ev) == 0 {
			return "child derivation did not use Prf_d"
		}
		// every block: a Reset, then writes, then Sum (how many writes is the implementation's business)
		state := "idle"
		for _, e := range ev {
			switch e.Op {
			case "Reset":
				state = "reset"
			case "Write":
				if state != "reset" && state != "writing" {
					return "prf+ block does not start with Reset"
				}
				state = "writing"
			case "Sum":
				if state != "writing" && state != "reset" {
					return "prf+ Sum without a fresh computation"
				}
				state = "idle"
			}
		}
		return ""
	}
	// unprotect: MAC object of the PEER's direction; every MAC computation starts with Reset
	mac, enc := "Integ_i", "Encr_i" // receiver is responder -> peer is initiator
	if receiverInit {
		mac, enc = "Integ_r", "Encr_r"
	}
	sawDecrypt := false
	for i, e := range ev {
		if e.Obj == "Prf_d" {
			return "unprotect touched Prf_d"
		}
		if e.Op == "Write" {
			// the computation this Write belongs to must have started with a Reset (chunked writes are fine)
			ok := false
			for j := i - 1; j >= 0; j-- {
				if ev[j].Obj != e.Obj {
					continue
				}
				if ev[j].Op == "Reset" {
					ok = true
				}
				if ev[j].Op != "Write" {
					break
				}
			}
			if !ok {
				return "MAC computation on " + e.Obj + " does not start with Reset"
			}
		}
		if e.Op == "Decrypt" {
			sawDecrypt = true
			if e.Obj != enc {
				return "decrypted with " + e.Obj + ", expected " + enc
			}
		} else if e.Obj != mac {
			return "used " + e.Obj + ", expected " + mac
		}
	}
	if res.err && sawDecrypt && op == opUT {
		// allowed only if the MAC really matched (cannot for forged input)
		return "Decrypt on a rejected forged message"
	}
	if !res.err && !sawDecrypt && len(presented) > 16 && presented[16] == abs.PSK {
		return "accepted an SK message without decrypting"
	}
	return ""
}

// histTail: the last 80 operations (long lives would make the witness quadratic)
func histTail(h []string) string {
	if len(h) > 80 {
		return fmt.Sprintf("...(%d earlier) ", len(h)-80) + strings.Join(h[len(h)-80:], " ")
	}
	return strings.Join(h, " ")
}

func c17History(k *core.Case) {
	s := ref.Suites[k.Index%9]
	raw := libsa.RandomRaw(k.R, s)
	if bytes.Equal(raw.K.Ai, raw.K.Ar) {
		raw.In = nil
		raw.K.Ar = k.R.Bytes(len(raw.K.Ar))
	}
	long, err := libsa.NewKey(raw)
	if err != nil {
		k.Violate("setup", "NewKey failed", err.Error(), nil)
		return
	}
	tr := libsa.Spy(long)
	long.Prf_d = &mon.SpyHash{Name: "Prf_d", Inner: long.Prf_d, T: tr}
	n := k.R.Pick(8, 16, 32, 64)
	if k.Index < 9 {
		n = k.N(300, 66000) // one long life per suite: operation counts cross 256 (quick) and 65536 (thorough)
		k.Count("long_lived_sa_histories", 1)
	}
	var hist []string
	prev := -1
	prev2 := -1
	var prevSeed uint64
	var lastAcc []byte // the last genuine datagram the long-lived object accepted
	var lastAccInit bool
	var lastAccMsg *abs.Msg
	for st := 0; st < n; st++ {
		op := k.R.Intn(nOps)
		if prev == opUT && k.R.Chance(2, 3) {
			op = k.R.Pick(opPI, opPR, opUG, opDC) // a rejected forgery immediately before a genuine operation
		} else if k.R.Chance(1, 3) {
			op = opUT
		}
		if op == opRT && lastAcc == nil {
			op = opUG
		}
		hist = append(hist, opNames[op])
		seed := k.R.U64()
		if st > 0 && k.R.Chance(1, 6) {
			// the random source REPEATS what it delivered for the previous operation (a stuck generator, a VM restored
			// from a snapshot): a fresh object under that stream gives a result, so must the long-lived one
			seed = prevSeed
			k.Count("random_stream_repeated_from_the_previous_step", 1)
		}
		prevSeed = seed
		fresh, _ := libsa.NewKey(raw)

		// prepare the step's input
		var m *abs.Msg
		var presented []byte
		recvInit := k.R.Bool()
		e, i := k.R.Intn(3), k.R.Intn(4)
		nonces := k.R.Bytes(k.R.Range(0, 64))
		switch op {
		case opPI, opPR:
			m = gen.Msg(k.R, gen.Opt{Protected: true, MaxPayloads: 3, AllowEmpty: true})
		case opRT:
			m, presented, recvInit = lastAccMsg, append([]byte{}, lastAcc...), lastAccInit
		case opUC:
			hdr := gen.Header(k.R)
			dir := raw.Dir(!recvInit)
			var ivct []byte
			switch k.R.Intn(4) {
			case 0:
				ivct = k.R.Bytes(16) // IV only
			case 1:
				ivct = k.R.Bytes(16 + 1 + k.R.Intn(30)) // not a whole number of blocks
				if (len(ivct)-16)%16 == 0 {
					ivct = ivct[:len(ivct)-1]
				}
			case 2:
				ivct = k.R.Bytes(k.R.Intn(16)) // shorter than an IV
			default: // pad length larger than the plaintext
				pt := k.R.Bytes(16 * (1 + k.R.Intn(3)))
				pt[len(pt)-1] = byte(len(pt) + k.R.Intn(200))
				iv := k.R.Bytes(16)
				ct, _ := ref.CBCEncrypt(dir.Ke, iv, pt)
				ivct = append(iv, ct...)
			}
			if len(ivct) >= 16 {
				presented = ref.AssembleProtected(hdr, uint8(k.R.Pick(0, 40, 41)), ivct[:16], ivct[16:], s, dir.Ka)
			} else {
				presented = ref.AssembleProtected(hdr, 40, nil, ivct, s, dir.Ka)
			}
		case opUG, opUT:
			m = gen.Msg(k.R, gen.Opt{Protected: true, MaxPayloads: 3, AllowEmpty: true})
			peer, _ := libsa.NewKey(raw)
			g, gerr, gp := libProtect(m, peer, !recvInit)
			if gerr != nil || gp != nil {
				k.Violate("protect-error", "fresh-peer-cannot-protect", fmt.Sprint(gerr, gp), M{"msg": msgJSON(m)})
				return
			}
			presented = g
			if op == opUT && lastAcc != nil && k.R.Chance(1, 3) {
				// forgeries derived from the LAST datagram this object accepted, keeping its checksum octets: what an
				// on-path attacker holds after seeing one genuine message
				recvInit = lastAccInit
				la := lastAcc
				icv := s.ICVLen()
				f := append([]byte{}, la...)
				switch k.R.Intn(5) {
				case 0: // replay under another Message ID
					f[20+k.R.Intn(4)] ^= byte(1 + k.R.Intn(255))
				case 1: // other exchange type / flags
					f[18+k.R.Intn(2)] ^= byte(1 << uint(k.R.Intn(8)))
				case 2: // IV changed (CBC: rewrites the first plaintext block at will)
					f[32+k.R.Intn(16)] ^= byte(1 + k.R.Intn(255))
				case 3: // ciphertext changed
					if len(f)-icv > 48 {
						f[48+k.R.Intn(len(f)-icv-48)] ^= byte(1 + k.R.Intn(255))
					} else {
						f[32] ^= 1
					}
				default: // the accepted checksum grafted onto a different genuine message of the same direction
					g2, _, _ := libProtect(m, peer, !recvInit)
					if len(g2) > icv {
						f = append(append([]byte{}, g2[:len(g2)-icv]...), la[len(la)-icv:]...)
					} else {
						f[33] ^= 2
					}
				}
				presented = f
				k.Count("forgeries_keeping_the_last_accepted_checksum", 1)
			} else if op == opUT {
				switch k.R.Intn(6) {
				case 0:
					presented = append([]byte{}, g[:k.R.Intn(len(g))]...)
				case 1:
					presented = k.R.Bytes(k.R.Intn(80))
				case 2: // short SK body
					body := k.R.Bytes(k.R.Intn(s.ICVLen() + 4))
					presented = append(append([]byte{}, g[:28]...), g[28], 0, byte((4+len(body))>>8), byte(4+len(body)))
					presented = append(presented, body...)
				case 3: // reflected
					g2, _, _ := libProtect(m, peer, recvInit)
					presented = g2
				default:
					presented = append([]byte{}, g...)
					off := k.R.Intn(len(g))
					if off == 16 {
						off = 17
					}
					presented[off] ^= 1 << uint(k.R.Intn(8))
				}
			}
		}
		run := func(key *security.IKESAKey) (r stepResult) {
			mon.WithRand(core.NewRng(seed), func() {
				switch op {
				case opPI, opPR:
					b, err, p := libProtect(m, key, op == opPI)
					r.wire, r.err = b, err != nil
					if p != nil {
						r.panicS = p.Sig()
					}
				case opUG, opUT, opRT, opUC:
					d, err, p := libUnprotect(append([]byte{}, presented...), k.Index%2 == 0, key, recvInit)
					r.msg, r.err = d, err != nil
					if p != nil {
						r.panicS = p.Sig()
					}
				case opDC:
					ck := newChild(e, i)
					var err error
					p := core.Try(func() { err = ck.GenerateKeyForChildSA(key, nonces) })
					r.err = err != nil
					if p != nil {
						r.panicS = p.Sig()
					}
					r.child = [4][]byte{ck.InitiatorToResponderEncryptionKey, ck.InitiatorToResponderIntegrityKey,
						ck.ResponderToInitiatorEncryptionKey, ck.ResponderToInitiatorIntegrityKey}
				}
			})
			return
		}
		if st%8 == 3 {
			pokeAccessors(long) // the SA is logged now and then
		}
		tr.Reset()
		k.Eval(1)
		rl := run(long)
		ev := tr.Snapshot()
		rf := run(fresh)
		w := M{"suite": s.Name(), "keys": raw.JSON(), "history": histTail(hist), "step": st, "op": opNames[op],
			"rand_seed": seed, "trace": tr.String()}
		if m != nil {
			w["msg"] = msgJSON(m)
		}
		if presented != nil {
			w["presented"] = core.HexClip(presented, 2048)
			w["receiver_initiator"] = recvInit
		}
		if rl.panicS != "" {
			k.Violate("panic", "history: "+rl.panicS, "panic on the long-lived SA object at step "+fmt.Sprint(st), w)
			return
		}
		if d := rl.equal(rf); d != "" {
			k.Violate("history-dependence", "long-lived-differs-from-fresh/"+opNames[op], fmt.Sprintf("step %d (%s) after [%s]: %s", st, opNames[op], histTail(hist), d), w)
			return
		}
		// solo contracts
		switch op {
		case opPI, opPR:
			if rl.err {
				k.Violate("protect-error", "history-protect-error", "protect failed", w)
				return
			}
			peer, _ := libsa.NewKey(raw)
			d, derr, dp := libUnprotect(rl.wire, false, peer, op != opPI)
			if derr != nil || dp != nil || !abs.Equal(m, d) {
				k.Violate("history-dependence", "fresh-peer-rejects-long-lived-output", fmt.Sprint(derr, dp), w)
				return
			}
		case opUG, opRT:
			if rl.err || !abs.Equal(m, rl.msg) {
				k.Violate("history-dependence", "genuine-rejected-by-long-lived", "genuine message from a fresh peer ("+opNames[op]+") not accepted / differs", w)
				return
			}
			lastAcc, lastAccInit, lastAccMsg = append([]byte{}, presented...), recvInit, m
		case opUC:
			if !rl.err {
				k.Violate("accepted", "undecryptable-accepted-by-long-lived", "a datagram the cipher must refuse was accepted", w)
				return
			}
		case opUT:
			if !rl.err && len(presented) > 16 && presented[16] == abs.PSK && !bytes.Equal(presented, nil) {
				k.Violate("accepted", "forged-accepted-by-long-lived", "forged message accepted", w)
				return
			}
		case opDC:
			if rl.err {
				k.Violate("derive-error", "history-child-error", "child derivation failed", w)
				return
			}
			ck := newChild(e, i)
			ck.InitiatorToResponderEncryptionKey, ck.InitiatorToResponderIntegrityKey = rl.child[0], rl.child[1]
			ck.ResponderToInitiatorEncryptionKey, ck.ResponderToInitiatorIntegrityKey = rl.child[2], rl.child[3]
			if bad := childCmp(ck, raw.Prf, raw.K.D, nonces, e, i); bad != "" {
				k.Violate("mismatch", "history-child-mismatch", bad, w)
				return
			}
		}
		if bad := traceSpecStep(op, ev, rl, presented, recvInit, s.ICVLen()); bad != "" {
			k.Violate("trace", "history-trace: "+classifyErr(fmt.Errorf("%s", bad)), bad, w)
			return
		}
		if prev >= 0 {
			k.Count("bigram_"+opNames[prev]+">"+opNames[op], 1)
			k.Distinct("bi|" + opNames[prev] + ">" + opNames[op] + "|" + s.Name())
		}
		if prev2 >= 0 {
			k.Distinct(fmt.Sprintf("tri|%d%d%d", prev2, prev, op))
		}
		prev2, prev = prev, op
	}
	k.Count(fmt.Sprintf("histories_len_%d", minI(n, 65)), 1)
	if k.WantSample() {
		k.Sample(M{"suite": s.Name(), "history": histTail(hist)})
	}
}

func c17(c *core.Ctx) {
	c.Info("rule", "case = seeded history of 8/16/32/64 operations over {protect as I, protect as R, unprotect genuine from a fresh peer, unprotect forged (bit flip / truncation / garbage / short SK body / reflection), derive Child SA} on ONE long-lived IKESAKey; "+
		"every step is repeated on a freshly built key object under the same deterministic random stream and must give byte-identical results, plus solo contracts and a spy-trace specification; distinct = operation bigrams x suite and trigrams observed; all 25 bigrams required")
	c.Info("assumptions", "deterministic crypto/rand.Reader replacement makes EncodeEncrypt a pure function of (message, keys, stream)")
	c.Family("histories", c.N(9*300, 9*100000), c17History)
	// runs of CONSECUTIVE rejected datagrams (a flood of garbage on the SA's port), then genuine traffic: counts
	// around 8-bit and 16-bit limits
	c.Family("rejection-runs", c.N(9*8, 9*12), func(k *core.Case) {
		s := ref.Suites[k.Index%9]
		raw := libsa.RandomRaw(k.R, s)
		long, err := libsa.NewKey(raw)
		if err != nil {
			return
		}
		run := []int{1, 7, 127, 254, 255, 256, 257, 300, 1000, 4096, 65535, 65537}[k.Index/9%12]
		recvInit := k.R.Bool()
		peer, _ := libsa.NewKey(raw)
		m := gen.Msg(k.R, gen.Opt{Protected: true, MaxPayloads: 2})
		g, gerr, gp := libProtect(m, peer, !recvInit)
		if gerr != nil || gp != nil {
			return
		}
		for i := 0; i < run; i++ {
			f := append([]byte{}, g...)
			f[32+k.R.Intn(len(f)-32)] ^= byte(1 + k.R.Intn(255))
			k.Eval(1)
			if _, err, p := libUnprotectWith(f, nil, long, recvInit); err == nil || p != nil {
				k.Violate("accepted", "forged-accepted-in-a-rejection-run", fmt.Sprint(err, p), M{"suite": s.Name(), "run": i})
				return
			}
		}
		for j := 0; j < 3; j++ {
			d, err, p := libUnprotectWith(append([]byte{}, g...), nil, long, recvInit)
			if err != nil || p != nil || !abs.Equal(m, d) {
				k.Violate("history-dependence", "genuine-rejected-after-a-run-of-rejections", fmt.Sprintf("after %d consecutive rejected datagrams: %v %v", run, err, p), M{"suite": s.Name(), "keys": raw.JSON(), "run": run})
				return
			}
			if b, err, p := libProtect(m, long, recvInit); err != nil || p != nil || len(b) == 0 {
				k.Violate("history-dependence", "protect-fails-after-a-run-of-rejections", fmt.Sprint(err, p), M{"suite": s.Name(), "run": run})
				return
			}
		}
		k.Count("rejection_runs", 1)
		k.Distinct(fmt.Sprintf("rejrun|%d", run))
	})
	// SEVERAL SA objects alive in one process that share everything an implementation might (wrongly) key state by:
	// the SPI pair, the Message ID, the exchange type - a gateway with two peers behind one NAT, a rekeyed SA next to
	// its predecessor, or one record used in both roles. Operations on the twins are interleaved; every step is
	// repeated on a fresh object of the same keys under the same random stream.
	c.Family("twin-SAs-sharing-identifiers", c.N(9*40, 9*4000), func(k *core.Case) {
		s := ref.Suites[k.Index%9]
		rawA := libsa.RandomRaw(k.R, s)
		rel := k.Index / 9 % 5
		rawB := libsa.RandomRaw(k.R, s)
		rawB.Prf = rawA.Prf
		if rawB.In != nil { // keep the hand-installed form: the relation below edits the key octets
			rawB.In = nil
		}
		cpb := func(b []byte) []byte { return append([]byte{}, b...) }
		switch rel {
		case 1: // same key octets, distinct objects
			rawB = rawA
		case 2: // same encryption keys, other integrity keys
			rawB.K.Ei, rawB.K.Er = cpb(rawA.K.Ei), cpb(rawA.K.Er)
		case 3: // the same keys with the roles swapped (this end is responder on the twin)
			rawB.K = ref.IKEKeys{D: cpb(rawA.K.D), Ai: cpb(rawA.K.Ar), Ar: cpb(rawA.K.Ai), Ei: cpb(rawA.K.Er), Er: cpb(rawA.K.Ei), Pi: cpb(rawA.K.Pr), Pr: cpb(rawA.K.Pi)}
		case 4: // same integrity keys, other encryption keys
			rawB.K.Ai, rawB.K.Ar = cpb(rawA.K.Ai), cpb(rawA.K.Ar)
		}
		raws := []libsa.Raw{rawA, rawB}
		var long [2]*security.IKESAKey
		for i := range long {
			var err error
			if long[i], err = libsa.NewKey(raws[i]); err != nil {
				k.Violate("setup", "NewKey failed", err.Error(), nil)
				return
			}
		}
		// two headers only: every datagram of either SA carries one of them
		hdrs := []*abs.Msg{gen.Header(k.R), gen.Header(k.R)}
		if k.R.Bool() {
			hdrs[1].ISPI, hdrs[1].RSPI = hdrs[0].ISPI, hdrs[0].RSPI
		}
		type sent struct {
			wire []byte
			m    *abs.Msg
			by   int
			init bool
		}
		var last []sent
		var hist []string
		for st := 0; st < 24; st++ {
			who := k.R.Intn(2)
			op := k.R.Pick(opPI, opPR, opUG, opUG, opUT, opDC)
			if len(last) == 0 && op == opUT {
				op = opPI
			}
			seed := k.R.U64()
			h := hdrs[k.R.Intn(2)]
			m := gen.Msg(k.R, gen.Opt{Protected: true, MaxPayloads: 2, AllowEmpty: true})
			m.ISPI, m.RSPI, m.MsgID, m.Exch, m.Flags, m.Major, m.Minor = h.ISPI, h.RSPI, h.MsgID, h.Exch, h.Flags, h.Major, h.Minor
			recvInit := k.R.Bool()
			var presented []byte
			var from sent
			switch op {
			case opUG: // genuine datagram from this SA's peer
				peer, _ := libsa.NewKey(raws[who])
				g, gerr, gp := libProtect(m, peer, !recvInit)
				if gerr != nil || gp != nil {
					k.Violate("protect-error", "fresh-peer-cannot-protect", fmt.Sprint(gerr, gp), M{"msg": msgJSON(m)})
					return
				}
				presented = g
			case opUT: // a datagram that one of the twins sent or accepted, presented to `who` (either twin)
				from = last[k.R.Intn(len(last))]
				presented, recvInit = append([]byte{}, from.wire...), !from.init
				if k.R.Chance(1, 3) {
					recvInit = from.init // reflected as well
				}
			}
			e, i := k.R.Intn(3), k.R.Intn(4)
			nonces := k.R.Bytes(k.R.Range(0, 48))
			hist = append(hist, fmt.Sprintf("%s@%c", opNames[op], 'A'+who))
			run := func(key *security.IKESAKey) (r stepResult) {
				mon.WithRand(core.NewRng(seed), func() {
					switch op {
					case opPI, opPR:
						b, err, p := libProtect(m, key, op == opPI)
						r.wire, r.err = b, err != nil
						if p != nil {
							r.panicS = p.Sig()
						}
					case opUG, opUT:
						d, err, p := libUnprotect(append([]byte{}, presented...), st%2 == 0, key, recvInit)
						r.msg, r.err = d, err != nil
						if p != nil {
							r.panicS = p.Sig()
						}
					case opDC:
						ck := newChild(e, i)
						var err error
						p := core.Try(func() { err = ck.GenerateKeyForChildSA(key, nonces) })
						r.err = err != nil
						if p != nil {
							r.panicS = p.Sig()
						}
						r.child = [4][]byte{ck.InitiatorToResponderEncryptionKey, ck.InitiatorToResponderIntegrityKey,
							ck.ResponderToInitiatorEncryptionKey, ck.ResponderToInitiatorIntegrityKey}
					}
				})
				return
			}
			k.Eval(1)
			rl := run(long[who])
			fresh, _ := libsa.NewKey(raws[who])
			rf := run(fresh)
			w := M{"suite": s.Name(), "relation": rel, "keysA": rawA.JSON(), "keysB": rawB.JSON(), "history": histTail(hist), "step": st, "rand_seed": seed}
			if presented != nil {
				w["presented"] = core.HexClip(presented, 1024)
				w["receiver_initiator"] = recvInit
			}
			if rl.panicS != "" {
				k.Violate("panic", "twins: "+rl.panicS, "panic at step "+fmt.Sprint(st), w)
				return
			}
			if d := rl.equal(rf); d != "" {
				k.Violate("history-dependence", "twin-differs-from-fresh/"+opNames[op], fmt.Sprintf("step %d after [%s]: %s", st, histTail(hist), d), w)
				return
			}
			switch op {
			case opPI, opPR:
				if rl.err {
					k.Violate("protect-error", "twin-protect-error", "protect failed", w)
					return
				}
				peer, _ := libsa.NewKey(raws[who])
				d, derr, dp := libUnprotect(rl.wire, false, peer, op != opPI)
				if derr != nil || dp != nil || !abs.Equal(m, d) {
					k.Violate("history-dependence", "fresh-peer-rejects-twin-output", fmt.Sprint(derr, dp), w)
					return
				}
				last = append(last, sent{rl.wire, m, who, op == opPI})
			case opUG:
				if rl.err || !abs.Equal(m, rl.msg) {
					k.Violate("history-dependence", "genuine-rejected-by-twin", "genuine message from a fresh peer not accepted / differs", w)
					return
				}
				last = append(last, sent{presented, m, who, !recvInit})
			case opUT:
				// accepted only when the receiving direction's integrity key is the one the datagram was made under
				mk := raws[from.by].Dir(from.init)
				vk := raws[who].Dir(!recvInit)
				same := bytes.Equal(mk.Ka, vk.Ka) && bytes.Equal(mk.Ke, vk.Ke)
				if !rl.err && !bytes.Equal(mk.Ka, vk.Ka) {
					k.Violate("accepted", "twin-accepts-the-other-twins-datagram", "a datagram made under another integrity key was accepted", w)
					return
				}
				if same && (rl.err || !abs.Equal(from.m, rl.msg)) {
					k.Violate("history-dependence", "twin-rejects-datagram-of-equal-keys", "datagram made under equal keys refused / differs", w)
					return
				}
				k.Count(fmt.Sprintf("twin_cross_presentations_same_keys_%v", same), 1)
			case opDC:
				if rl.err {
					k.Violate("derive-error", "twin-child-error", "child derivation failed", w)
					return
				}
				ck := newChild(e, i)
				ck.InitiatorToResponderEncryptionKey, ck.InitiatorToResponderIntegrityKey = rl.child[0], rl.child[1]
				ck.ResponderToInitiatorEncryptionKey, ck.ResponderToInitiatorIntegrityKey = rl.child[2], rl.child[3]
				if bad := childCmp(ck, raws[who].Prf, raws[who].K.D, nonces, e, i); bad != "" {
					k.Violate("mismatch", "twin-child-mismatch", bad, w)
					return
				}
			}
			if len(last) > 6 {
				last = last[1:]
			}
		}
		k.Count(fmt.Sprintf("twin_sa_histories_relation_%d", rel), 1)
		k.Distinct(fmt.Sprintf("twin|%d|%s", rel, s.Name()))
	})
	var req []string
	for a := 0; a < nOps; a++ {
		for b := 0; b < nOps; b++ {
			req = append(req, "bigram_"+opNames[a]+">"+opNames[b])
		}
	}
	req = append(req, "forgeries_keeping_the_last_accepted_checksum", "long_lived_sa_histories", "rejection_runs",
		"twin_sa_histories_relation_0", "twin_sa_histories_relation_1", "twin_sa_histories_relation_2", "twin_sa_histories_relation_3", "twin_sa_histories_relation_4",
		"twin_cross_presentations_same_keys_true", "twin_cross_presentations_same_keys_false")
	c.Require(req...)
}
