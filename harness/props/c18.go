package props

import (
	"bytes"
	"crypto/sha256"
	"fmt"
	"math/big"
	"runtime"
	"sort"
	"strings"
	"sync"
	"sync/atomic"
	"time"

	ike "github.com/free5gc/ike"
	"github.com/free5gc/ike/eap"
	"github.com/free5gc/ike/message"
	"github.com/free5gc/ike/security"
	"github.com/free5gc/ike/security/dh"
	"github.com/free5gc/ike/security/encr"
	"github.com/free5gc/ike/security/integ"
	"github.com/free5gc/ike/security/prf"

	"verifharness/abs"
	"verifharness/bridge"
	"verifharness/core"
	"verifharness/gen"
	"verifharness/libsa"
	"verifharness/ref"
)

func init() { core.Register("C18", c18) }

const (
	kEncode = iota
	kDecode
	kProtect
	kUnprotect
	kIKEKeys
	kChildKeys
	kDH
	kMapping
	kEAP
	kRandom
	kNewSA
	kSharedDecode
	kSharedUnprotect
	kRefused // inputs and arguments the library REFUSES (error paths), with own objects like everything else
	nKinds
)

var kindNames = []string{"encode", "decode", "protect", "unprotect", "ikekeys", "childkeys", "dh", "mapping", "eap", "random", "newsa", "shareddecode", "sharedunprotect", "refused"}

// per-goroutine state: objects no other goroutine touches
type slot struct {
	id   int
	raw  libsa.Raw
	key  *security.IKESAKey // long-lived, used for every protect/unprotect/child derivation of this slot
	peer *security.IKESAKey
	last []byte
}

func newSlot(id int, seed uint64) *slot {
	r := core.NewRng(seed, uint64(id), 0x510)
	s := &slot{id: id, raw: libsa.RandomRaw(r, ref.Suites[id%9])}
	s.key, _ = libsa.NewKey(s.raw)
	s.peer, _ = libsa.NewKey(s.raw)
	return s
}

// inputs shared read-only by all goroutines of one configuration
type sharedIn struct {
	plain    []byte
	prot     []byte
	protInit bool
	raw      libsa.Raw
	eapPkt   []byte
	kaut     []byte
}

func (s *sharedIn) snapshot() []byte {
	return append(append(append([]byte{}, s.plain...), s.prot...), s.eapPkt...)
}

type opRec struct {
	slot, kind int
	start, end int64
	digest     string
	rnd        []byte // randomised ops: the value drawn (for distinctness across slots)
}

func dg(parts ...interface{}) string {
	h := sha256.New()
	for _, p := range parts {
		fmt.Fprintf(h, "%v|", p)
	}
	return fmt.Sprintf("%x", h.Sum(nil)[:12])
}

// runOp executes one operation; deterministic kinds return a digest that must
// be identical to the sequential pre-run, randomised kinds return "ok" or a
// contract failure text.
func runOp(kind int, r *core.Rng, s *slot, sh *sharedIn) (digest string, rnd []byte) {
	shared := sh.plain
	defer func() {
		if x := recover(); x != nil {
			digest = fmt.Sprintf("PANIC: %v", x)
		}
	}()
	switch kind {
	case kEncode:
		m := gen.Msg(r, gen.Opt{MaxPayloads: 4, AllowEmpty: true})
		b, err, _ := libEncode(m)
		s.last = b
		return dg(b, err != nil), nil
	case kDecode:
		m := gen.Msg(r, gen.Opt{MaxPayloads: 4})
		b, _ := ref.EncodeMsg(m, &ref.Opts{Noise: r.Byte})
		if r.Chance(1, 3) {
			b = mutate(r, b)
		}
		d, err, _ := libDecode(b)
		if err != nil {
			return "err", nil
		}
		return dg(d.JSON()), nil
	case kProtect:
		m := gen.Msg(r, gen.Opt{Protected: true, MaxPayloads: 3, AllowEmpty: true})
		init := r.Bool()
		b, err, p := libProtect(m, s.key, init)
		if err != nil || p != nil {
			return fmt.Sprint("CONTRACT protect failed: ", err, p), nil
		}
		d, err, p := libUnprotect(b, r.Bool(), s.peer, !init)
		if err != nil || p != nil || !abs.Equal(m, d) {
			return fmt.Sprint("CONTRACT own peer rejects protected message: ", err, p), nil
		}
		return "ok", b[32:48] // IV
	case kUnprotect:
		m := gen.Msg(r, gen.Opt{Protected: true, MaxPayloads: 3})
		init := r.Bool()
		inner, first, _ := ref.EncodeChain(m.Payloads, nil)
		padn := (16 - (len(inner)+1)%16) % 16
		b, err := ref.ProtectRaw(m, first, inner, s.raw.Suite, s.raw.Dir(init), r.Bytes(16), r.Bytes(padn), nil)
		if err != nil {
			return "skip", nil
		}
		if r.Chance(1, 4) {
			b[r.Intn(len(b))] ^= 0x10
		}
		d, err, _ := libUnprotect(b, r.Bool(), s.key, !init)
		if err != nil {
			return "err", nil
		}
		return dg(d.JSON()), nil
	case kIKEKeys:
		k := newInfoKey(r.Intn(3), r.Intn(3), r.Intn(3), r.Intn(2))
		if err := k.GenerateKeyForIKESA(r.Bytes(r.Range(1, 80)), r.Bytes(r.Range(1, 300)), r.U64(), r.U64()); err != nil {
			return "err", nil
		}
		probe := r.Bytes(20)
		return dg(k.SK_d, k.SK_ai, k.SK_ar, k.SK_ei, k.SK_er, k.SK_pi, k.SK_pr, probeHash(k.Integ_i, probe), probeHash(k.Prf_r, probe)), nil
	case kChildKeys:
		ck := newChild(r.Intn(3), r.Intn(4))
		if err := ck.GenerateKeyForChildSA(s.key, r.Bytes(r.Range(0, 64))); err != nil {
			return "err", nil
		}
		return dg(ck.InitiatorToResponderEncryptionKey, ck.InitiatorToResponderIntegrityKey, ck.ResponderToInitiatorEncryptionKey, ck.ResponderToInitiatorIntegrityKey), nil
	case kDH:
		g := dh.StrToType(libsa.DhNames[r.Intn(2)])
		x := new(big.Int).SetBytes(r.Bytes(24))
		y := new(big.Int).SetBytes(r.Bytes(100))
		return dg(g.GetPublicValue(x), g.GetSharedKey(x, y)), nil
	case kMapping:
		e := encr.StrToType(libsa.EncrNames[[]int{16, 24, 32}[r.Intn(3)]])
		i := integ.StrToType(libsa.IntegNames[r.Intn(3)])
		p := prf.StrToType(libsa.PrfNames[r.Intn(3)])
		g := dh.StrToType(libsa.DhNames[r.Intn(2)])
		te, _ := encr.ToTransform(e)
		ti, tp, tg := integ.ToTransform(i), prf.ToTransform(p), dh.ToTransform(g)
		k := &security.IKESAKey{EncrInfo: encr.DecodeTransform(te), IntegInfo: integ.DecodeTransform(ti), PrfInfo: prf.DecodeTransform(tp), DhInfo: dh.DecodeTransform(tg)}
		bad := &message.Transform{TransformType: 1, TransformID: r.U16(), AttributePresent: true, AttributeFormat: 1, AttributeType: 14, AttributeValue: r.U16()}
		pr, err := k.ToProposal()
		if err != nil || k.EncrInfo == nil {
			return "err", nil
		}
		return dg(bridge.ObserveProposal(pr), encr.DecodeTransform(bad) != nil, message.IkePayloadType(r.Byte()).String(), eap.EapType(r.Byte()).String(), eap.EapAkaPrimeAttrType(r.Byte()).String()), nil
	case kEAP:
		a := gen.AKAWith(r, 1, r.Intn(128)|8)
		e := &abs.EAP{Code: 1, ID: r.Byte(), Method: &abs.Method{Type: abs.MAkaPrime, AKA: a}}
		le, err := bridge.BuildEAP(e)
		if err != nil {
			return "err", nil
		}
		key := r.Bytes(32)
		mac, err := le.CalcEapAkaPrimeAtMAC(key)
		if err != nil {
			return "err", nil
		}
		le.EapTypeData.(*eap.EapAkaPrime).SetAttr(eap.AT_MAC, mac)
		wire, _ := le.Marshal()
		back := new(eap.EAP)
		if err := back.Unmarshal(wire); err != nil {
			return "err", nil
		}
		mac2, _ := back.CalcEapAkaPrimeAtMAC(key)
		k1, k2, k3, k4, k5, _ := eap.EapAkaPrimePRF(r.Bytes(16), r.Bytes(16), string(r.Bytes(r.Intn(40))))
		return dg(wire, mac, mac2, k1, k2, k3, k4, k5), nil
	case kRandom:
		x, err := security.GenerateRandomNumber()
		if err != nil || x.BitLen() < 129 || x.BitLen() > 2048 {
			return fmt.Sprint("CONTRACT GenerateRandomNumber: ", err), nil
		}
		if _, err := security.GenerateRandomUint8(); err != nil {
			return fmt.Sprint("CONTRACT GenerateRandomUint8: ", err), nil
		}
		return "ok", x.Bytes()
	case kNewSA:
		e, i, p := r.Intn(3), r.Intn(3), r.Intn(3)
		k := newInfoKey(e, i, p, 0)
		pr, _ := k.ToProposal()
		peerExp := big.NewInt(int64(r.U32()) + 2)
		peerPub := k.DhInfo.GetPublicValue(peerExp)
		nonces, spii, spir := r.Bytes(32), r.U64(), r.U64()
		if r.Bool() {
			// identifiers that legitimately repeat across set-ups in flight: a peer that starts over after
			// INVALID_KE_PAYLOAD / COOKIE keeps its SPI, two peers behind one NAT can pick the same one, and the responder
			// SPI is 0 in every first request
			spii, spir = uint64(1+r.Intn(2)), 0
		}
		sa, pub, err := security.NewIKESAKey(pr, peerPub, nonces, spii, spir)
		if err != nil || sa == nil || len(pub) != 128 || len(sa.SK_ei) != k.EncrInfo.GetKeyLength() {
			return fmt.Sprint("CONTRACT NewIKESAKey: ", err), nil
		}
		// the SA is THIS call's: its keys are those of (this peer's exponent, the public value returned, these nonces / SPIs)
		shared := ref.FixedLen(ref.ModExp(new(big.Int).SetBytes(pub), peerExp, ref.P1024), 128)
		if bad := cmpKeys(sa, ref.DeriveIKE(p, ref.Suite{EncKeyLen: []int{16, 24, 32}[e], Integ: i}, nonces, shared, spii, spir)); bad != "" {
			return "CONTRACT NewIKESAKey: the SA returned is not keyed from this call's arguments and the returned public value: " + bad, nil
		}
		return "ok", pub
	case kRefused:
		var outs []interface{}
		// a malformed EAP-AKA' packet (zero-length attribute of a kind without a dedicated reader, zero-length AT_CHECKCODE, truncated)
		for _, pkt := range [][]byte{
			{1, r.Byte(), 0, 12, 50, 1, 0, 0, byte(r.Pick(134, 200, 129, 23)), 0, 0, 0},
			{1, r.Byte(), 0, 16, 50, 1, 0, 0, 1, 5, 0, 0, 1, 2, 3, 4},
			{2, r.Byte(), 0, 9, 50, 1, 0, 0, 24},
		} {
			outs = append(outs, new(eap.EAP).Unmarshal(pkt) != nil)
		}
		outs = append(outs, eap.NewEapAkaPrime(1).SetAttr(eap.AT_RAND, r.Bytes(r.Intn(15))) != nil)
		_, merr := (&eap.EAP{Code: 1, Identifier: r.Byte(), EapTypeData: &eap.EapIdentity{}}).Marshal()
		outs = append(outs, merr != nil)
		var c message.IKEPayloadContainer
		outs = append(outs, c.BuildNotify5G_QOS_INFO(r.Byte(), make([]uint8, 256+r.Intn(50)), true, false, 0) != nil, c.BuildEAP5GNAS(r.Byte(), make([]byte, 65536+r.Intn(100))) != nil)
		// a message with a CRITICAL payload of a type the library does not implement: refused, and the error says why
		{
			t := byte(r.Pick(49, 50, 53, 100, 200, 205, 207, 255, 1, 32))
			body := r.Bytes(r.Intn(12))
			chain := append([]byte{0, 0x80, 0, byte(4 + len(body))}, body...)
			hdr := &abs.Msg{ISPI: r.U64(), RSPI: r.U64(), Major: 2, Exch: 37, MsgID: r.U32()}
			whole := append(ref.EncodeHeader(hdr, t, 28+len(chain)), chain...)
			err := new(message.IKEMessage).Decode(whole)
			txt := "<nil>"
			if err != nil {
				txt = strings.SplitN(err.Error(), "\n", 2)[0]
			}
			outs = append(outs, err != nil, txt)
			var pc message.IKEPayloadContainer
			err2 := pc.Decode(t, chain)
			txt2 := "<nil>"
			if err2 != nil {
				txt2 = strings.SplitN(err2.Error(), "\n", 2)[0]
			}
			outs = append(outs, txt2)
		}
		// garbage and truncated datagrams, a tampered protected one
		outs = append(outs, new(message.IKEMessage).Decode(r.Bytes(r.Intn(60))) != nil)
		if s.last != nil && len(s.last) > 40 {
			t := append([]byte{}, s.last...)
			t[len(t)-1-r.Intn(20)] ^= 0x20
			_, err := ike.DecodeDecrypt(t, nil, s.peer, message.Role_Responder)
			outs = append(outs, err != nil)
		}
		_, _, _, _, _, perr := eap.EapAkaPrimePRF(nil, r.Bytes(16), "x")
		_, cerr := s.key.Encr_i.Decrypt(r.Bytes(1 + r.Intn(15)))
		outs = append(outs, perr != nil, cerr != nil)
		return dg(outs...), nil
	case kSharedUnprotect:
		// one protected datagram and one EAP-AKA' packet, shared read-only by all goroutines; each goroutine
		// unprotects / verifies with its OWN key objects built from the same raw keys
		key, err := libsa.NewKey(sh.raw)
		if err != nil {
			return "err", nil
		}
		d, err, _ := libUnprotect(sh.prot, r.Bool(), key, !sh.protInit)
		if err != nil {
			return "err", nil
		}
		e := new(eap.EAP)
		if err := e.Unmarshal(sh.eapPkt); err != nil {
			return "err", nil
		}
		mac, err := e.CalcEapAkaPrimeAtMAC(sh.kaut)
		if err != nil {
			return "err", nil
		}
		return dg(d.JSON(), mac), nil
	case kSharedDecode:
		// read-only sharing of one input slice between concurrent decoders
		d, err, _ := libDecode(shared)
		if err != nil {
			return "err", nil
		}
		e := new(eap.EAP)
		_ = e
		return dg(d.JSON()), nil
	}
	return "?", nil
}

var yieldSeed uint64
var yieldCount int64

func yieldHook(site string, n int) {
	c := atomic.AddInt64(&yieldCount, 1)
	h := (uint64(c)*0x9e3779b97f4a7c15 ^ atomic.LoadUint64(&yieldSeed)) >> 33
	switch h % 64 {
	case 0, 1, 2, 3:
		runtime.Gosched()
	case 4:
		time.Sleep(time.Duration(1+h%50) * time.Microsecond)
	}
	if i, ok := siteIndex[site]; ok {
		atomic.AddInt64(&siteHits[i], 1)
	}
}

// c18OnlyKind >= 0 makes every goroutine of a configuration run that one kind of operation (set by the storm family only;
// families run one after the other in a child process)
var c18OnlyKind = -1

func c18Config(k *core.Case, G, procs, opsPerSlot int) {
	old := runtime.GOMAXPROCS(procs)
	defer runtime.GOMAXPROCS(old)
	seed := k.R.U64()
	// one shared, read-only input
	sr := core.NewRng(seed, 0x5a)
	sm := gen.Msg(sr, gen.Opt{MaxPayloads: 5})
	shared := &sharedIn{}
	shared.plain, _ = ref.EncodeMsg(sm, nil)
	shared.raw = libsa.RandomRaw(sr, ref.Suites[sr.Intn(9)])
	shared.protInit = sr.Bool()
	pm := gen.Msg(sr, gen.Opt{Protected: true, MaxPayloads: 3})
	inner, first, _ := ref.EncodeChain(pm.Payloads, nil)
	padn := (16 - (len(inner)+1)%16) % 16
	shared.prot, _ = ref.ProtectRaw(pm, first, inner, shared.raw.Suite, shared.raw.Dir(shared.protInit), sr.Bytes(16), sr.Bytes(padn), nil)
	// spare capacity behind the shared datagrams, as in a receive buffer
	shared.prot = append(make([]byte, 0, len(shared.prot)+64), shared.prot...)
	shared.plain = append(make([]byte, 0, len(shared.plain)+64), shared.plain...)
	shared.kaut = sr.Bytes(32)
	shared.eapPkt, _ = ref.EncodeEAP(&abs.EAP{Code: 1, ID: 7, Method: &abs.Method{Type: abs.MAkaPrime, AKA: gen.AKAWith(sr, 1, 127)}}, &ref.Opts{AKAOrder: true})
	sharedCopy := shared.snapshot()

	plan := make([][]int, G)
	for g := 0; g < G; g++ {
		r := core.NewRng(seed, uint64(g), 0x91a)
		for i := 0; i < opsPerSlot; i++ {
			kind := r.Intn(nKinds)
			if kind == kNewSA && r.Chance(4, 5) { // two 2048-bit-exponent modexps: keep it rare
				kind = r.Intn(kNewSA)
			}
			if c18OnlyKind >= 0 {
				kind = c18OnlyKind // a storm of one kind of operation on all goroutines
			}
			plan[g] = append(plan[g], kind)
		}
	}
	// sequential pre-run: the result each op gives when run alone
	want := make([][]string, G)
	for g := 0; g < G; g++ {
		s := newSlot(g, seed)
		for i, kind := range plan[g] {
			d, _ := runOp(kind, core.NewRng(seed, uint64(g), uint64(i)), s, shared)
			want[g] = append(want[g], d)
		}
	}
	// concurrent run
	atomic.StoreUint64(&yieldSeed, seed)
	ike.VerifSetHook(yieldHook)
	defer ike.VerifSetHook(nil)
	var ticket int64
	recs := make([][]opRec, G)
	var wg sync.WaitGroup
	start := make(chan struct{})
	for g := 0; g < G; g++ {
		wg.Add(1)
		go func(g int) {
			defer wg.Done()
			s := newSlot(g, seed)
			<-start
			for i, kind := range plan[g] {
				t0 := atomic.AddInt64(&ticket, 1)
				d, rnd := runOp(kind, core.NewRng(seed, uint64(g), uint64(i)), s, shared)
				t1 := atomic.AddInt64(&ticket, 1)
				recs[g] = append(recs[g], opRec{g, kind, t0, t1, d, rnd})
			}
		}(g)
	}
	close(start)
	wg.Wait()
	k.Eval(G * opsPerSlot)
	w := M{"goroutines": G, "gomaxprocs": procs, "ops_per_goroutine": opsPerSlot, "seed": seed}
	if !bytes.Equal(shared.snapshot(), sharedCopy) {
		k.Violate("interference", "shared-read-only-input-modified", "", w)
		return
	}
	// oracle 2: result equals the sequential result
	rndSeen := map[string]string{}
	var all []opRec
	for g := 0; g < G; g++ {
		for i, rec := range recs[g] {
			all = append(all, rec)
			k.Count("ops_"+kindNames[rec.kind], 1)
			isRnd := rec.kind == kProtect || rec.kind == kRandom || rec.kind == kNewSA
			if isRnd {
				if rec.digest != "ok" {
					k.Violate("interference", "randomised-op-contract/"+kindNames[rec.kind], rec.digest, w)
					return
				}
				if len(rec.rnd) >= 16 {
					key := string(rec.rnd)
					if prev, dup := rndSeen[key]; dup {
						k.Violate("interference", "random-values-repeat-across-goroutines/"+kindNames[rec.kind], fmt.Sprintf("%x drawn by %s and slot %d op %d", rec.rnd[:16], prev, g, i), w)
						return
					}
					rndSeen[key] = fmt.Sprintf("slot %d op %d", g, i)
				}
				continue
			}
			if rec.digest != want[g][i] {
				w["slot"], w["op_index"], w["op"] = g, i, kindNames[rec.kind]
				w["concurrent_result"], w["sequential_result"] = rec.digest, want[g][i]
				k.Violate("interference", "concurrent-result-differs-from-sequential/"+kindNames[rec.kind],
					fmt.Sprintf("slot %d op %d (%s): %s when run concurrently, %s when run alone", g, i, kindNames[rec.kind], rec.digest, want[g][i]), w)
				return
			}
		}
	}
	// overlap statistics and schedule fingerprint
	sort.Slice(all, func(i, j int) bool { return all[i].start < all[j].start })
	fp := sha256.New()
	maxInFlight := 0
	var active []opRec
	for _, r := range all {
		fmt.Fprintf(fp, "%d.%d;", r.slot, r.kind)
		na := active[:0]
		for _, a := range active {
			if a.end > r.start {
				na = append(na, a)
				x, y := a.kind, r.kind
				if x > y {
					x, y = y, x
				}
				k.Count(fmt.Sprintf("overlap_%s+%s", kindNames[x], kindNames[y]), 1)
			}
		}
		active = append(na, r)
		if len(active) > maxInFlight {
			maxInFlight = len(active)
		}
	}
	k.Count("hook_hits_during_concurrent_runs", int(atomic.SwapInt64(&yieldCount, 0)))
	k.Distinct(fmt.Sprintf("schedule|%x", fp.Sum(nil)[:8]))
	k.Count(fmt.Sprintf("config_G%d_P%d", G, procs), 1)
	k.Count(fmt.Sprintf("max_in_flight_ge_%d", minI(maxInFlight, 8)), 1)
	if k.WantSample() {
		var first []string
		for i := 0; i < len(all) && i < 24; i++ {
			first = append(first, fmt.Sprintf("g%d:%s[%d-%d]", all[i].slot, kindNames[all[i].kind], all[i].start, all[i].end))
		}
		w["history_prefix"] = first
		w["max_in_flight"] = maxInFlight
		k.Sample(w)
	}
}

func c18(c *core.Ctx) {
	c.Info("rule", "case = (G goroutines in {2,8,16,64}, GOMAXPROCS in {2,4,8,16}, repetition seed): each goroutine runs a seeded sequence over 12 operation kinds (encode, decode, protect, unprotect, IKE/Child key derivation, DH, transform mapping, EAP encode/decode/MAC/PRF', random numbers, NewIKESAKey, decode of ONE shared read-only slice) on its own objects, "+
		"with a build-tagged yield hook perturbing the schedule; oracle: zero race-detector reports (counted by the runner from the log), every deterministic result equals the result of the same op run alone in a sequential pre-run, randomised ops meet their solo contracts and never repeat a value across goroutines, shared input unchanged; "+
		"distinct = schedule fingerprint (hash of the ticket-ordered start sequence); overlapping op-kind pairs are counted")
	c.Info("assumptions", "the race detector is happens-before based: it flags unsynchronised conflicting accesses that were executed, whatever the interleaving, within its history window || the plain build repeats the result oracle at higher volume without the detector")
	type cfg struct{ g, p int }
	cfgs := []cfg{{2, 2}, {8, 2}, {8, 4}, {16, 4}, {16, 8}, {64, 8}, {16, 16}, {64, 16}}
	if c.Thorough() {
		cfgs = nil
		for _, g := range []int{2, 8, 16, 64} {
			for _, p := range []int{2, 4, 8, 16} {
				cfgs = append(cfgs, cfg{g, p})
			}
		}
	}
	reps := c.N(5, 100)
	total := c.N(1000, 5000)
	if variant() == "plain" {
		reps *= 2
		total *= 2
	}
	c.Family("configs", len(cfgs)*reps, func(k *core.Case) {
		cf := cfgs[k.Index%len(cfgs)]
		c18Config(k, cf.g, cf.p, maxI(total/cf.g, 8))
	})
	// storms of ONE kind of operation on 16 goroutines at once (every goroutine hits the same library code at the same
	// time, with its own objects and arguments): interference that the mixed configurations dilute shows here
	stormKinds := []int{kMapping, kDH, kEAP, kIKEKeys, kChildKeys, kDecode, kEncode, kProtect, kUnprotect, kRefused, kNewSA}
	c.Family("single-kind-storms", len(stormKinds)*c.N(1, 20), func(k *core.Case) {
		kind := stormKinds[k.Index%len(stormKinds)]
		c18OnlyKind = kind
		defer func() { c18OnlyKind = -1 }()
		ops := 300
		if kind == kNewSA {
			ops = 12
		}
		c18Config(k, 16, 16, ops)
		k.Count("single_kind_storms", 1)
	})
	// the very first uses of the library in a new process, overlapping on 32 goroutines (no sequential warm-up as in
	// the configurations above)
	freshFamily(c, "C18", "fresh-process-concurrent-first-use", c.N(6, 100))
	req := []string{"fresh_process_cases_ok", "single_kind_storms"}
	for i := 0; i < nKinds; i++ {
		req = append(req, "ops_"+kindNames[i])
		for j := i; j < nKinds; j++ {
			req = append(req, fmt.Sprintf("overlap_%s+%s", kindNames[i], kindNames[j]))
		}
	}
	c.Require(req...)
}
