#!/usr/bin/env python3
"""Orchestration of one property check.

  ./check <Cxx> [quick|thorough] [--replay <file>]
  ./check --setup            (build once, warm the Go build cache)

Builds the harness from /repo's current working tree (tag `verif`), runs the
property's workload in child processes (one per shard and build variant) under
a wall-clock watchdog, merges their result files, matches violations against
/verif/known_findings.json, writes /verif/evidence/<id>.json and prints
VIOLATION / KNOWN-FINDING / INCONCLUSIVE lines.

Exit codes: 0 held on everything explored, 1 violation, 2 inconclusive.
"""
import glob
import hashlib
import json
import os
import re
import shutil
import subprocess
import sys
import time

VERIF = os.path.dirname(os.path.dirname(os.path.abspath(__file__)))
# self-test only: where evidence/ and replay/ are written (default: /verif itself)
OUT = os.environ.get("VERIF_OUT_DIR") or VERIF
HARNESS = os.path.join(VERIF, "harness")
BUILD = os.path.join(VERIF, ".build")
REPO = "/repo"

GOENV = dict(os.environ)
GOENV.update({"GOFLAGS": "-mod=mod", "GOPROXY": "off", "GOSUMDB": "off", "GOTOOLCHAIN": "local",
              "CGO_ENABLED": os.environ.get("CGO_ENABLED", "1")})

NCPU = os.cpu_count() or 4

# per property: list of (variant, quick shards, thorough shards)
# variant: plain | race | asan
PLAN = {
    "C01": [("plain", 4, 16)],
    "C02": [("plain", 4, 16)],
    "C03": [("plain", 4, 16)],
    "C04": [("plain", 6, 16), ("race", 2, 16), ("asan", 0, 8)],
    "C05": [("plain", 4, 16)],
    "C06": [("plain", 4, 16)],
    "C07": [("plain", 4, 16)],
    "C08": [("plain", 4, 16)],
    "C09": [("plain", 6, 16)],
    "C10": [("plain", 4, 16)],
    "C11": [("plain", 6, 16)],
    "C12": [("plain", 4, 16)],
    "C13": [("plain", 4, 16)],
    "C14": [("plain", 4, 16)],
    "C15": [("plain", 4, 16), ("race", 1, 8)],
    "C16": [("plain", 4, 16)],
    "C17": [("plain", 4, 16)],
    "C18": [("race", 4, 16), ("plain", 2, 8)],
    "C19": [("plain", 4, 16)],
    "C20": [("plain", 4, 16), ("race", 2, 8), ("asan", 0, 8)],
}

# sanitizer builds run every n-th case of each family (they are 3-10x slower)
SUBSAMPLE = {("cover", "quick"): 10, ("cover", "thorough"): 200, ("C18", "cover", "quick"): 4, ("C18", "cover", "thorough"): 40,
             ("race", "quick"): 8, ("asan", "quick"): 8, ("asan", "thorough"): 12, ("race", "thorough"): 4,
             ("C18", "race", "quick"): 1, ("C18", "race", "thorough"): 1,
             ("C15", "race", "thorough"): 16}  # C15 thorough has 30M cases; every 4th under the race detector ran > 2 h

for _p in PLAN:
    PLAN[_p] = PLAN[_p] + [("cover", 1, 1)]  # statement coverage of the anchored files on a sample of the same case list (evidence of reach)

WATCHDOG = {"quick": 1500, "thorough": 10800}
# per-case limit in seconds (a single generated case is milliseconds; C18 configurations and thorough C11 id sweeps are the long ones)
CASE_LIMIT = {"default": 60, "C18": 600, "C09": 150}


def log(*a):
    print(*a, file=sys.stderr, flush=True)


def sh(cmd, **kw):
    return subprocess.run(cmd, stdout=subprocess.PIPE, stderr=subprocess.STDOUT, text=True, **kw)


def tree_hash(path):
    """content hash of the tracked + modified go sources of a tree (informational)."""
    h = hashlib.sha256()
    for root, dirs, files in os.walk(path):
        dirs[:] = sorted(d for d in dirs if not d.startswith("."))
        for f in sorted(files):
            if f.endswith(".go") or f in ("go.mod", "go.sum"):
                p = os.path.join(root, f)
                h.update(p.encode())
                with open(p, "rb") as fh:
                    h.update(fh.read())
    return h.hexdigest()[:16]


def build(variant, outdir=None):
    os.makedirs(BUILD, exist_ok=True)
    outdir = outdir or BUILD
    # go.sum of the harness is the repo's (the harness adds no dependency)
    try:
        with open(os.path.join(REPO, "go.sum"), "rb") as f:
            want = f.read()
        have = b""
        if os.path.exists(os.path.join(HARNESS, "go.sum")):
            with open(os.path.join(HARNESS, "go.sum"), "rb") as f:
                have = f.read()
        if want != have:
            with open(os.path.join(HARNESS, "go.sum"), "wb") as f:
                f.write(want)
    except OSError:
        pass
    out = os.path.join(outdir, "vharness-" + variant)
    cmd = ["go", "build", "-tags", "verif", "-o", out]
    alt = os.environ.get("VERIF_REPO_OVERRIDE")
    if alt:
        # self-test only: build against a scratch copy of the repository (never used by registered checks)
        with open(os.path.join(HARNESS, "go.mod")) as f:
            mod = f.read().replace("=> /repo", "=> " + alt)
        altmod = os.path.join(outdir, "go.alt.mod")
        with open(altmod, "w") as f:
            f.write(mod)
        shutil.copyfile(os.path.join(alt, "go.sum"), os.path.join(outdir, "go.alt.sum"))
        cmd.append("-modfile=" + altmod)
    if variant == "race":
        cmd.append("-race")
    elif variant == "asan":
        cmd.append("-asan")
    elif variant == "cover":
        cmd += ["-cover", "-coverpkg=github.com/free5gc/ike/...,verifharness/..."]
    cmd.append("./cmd/vharness")
    t0 = time.time()
    r = sh(cmd, cwd=HARNESS, env=GOENV)
    if r.returncode != 0:
        return None, r.stdout
    log("built %s in %.1fs" % (variant, time.time() - t0))
    return out, ""


def load_known():
    p = os.environ.get("VERIF_KNOWN_FINDINGS") or os.path.join(VERIF, "known_findings.json")  # the override is for self-tests only
    if not os.path.exists(p):
        return []
    with open(p) as f:
        return json.load(f).get("findings", [])


def run_children(prop, tier, seed, plan, workdir, only=None):
    """returns (results, fatals, inconclusive_reasons, race_reports)"""
    procs = []
    for variant, qs, ts in plan:
        n = ts if tier == "thorough" else qs
        if n <= 0:
            continue
        if only is not None:
            n = 1
        binp, err = build(variant, workdir)
        if binp is None:
            return None, None, ["build failed (%s):\n%s" % (variant, err[-3000:])], None
        for i in range(n):
            out = os.path.join(workdir, "%s-%s-%d.json" % (prop, variant, i))
            errf = out + ".stderr"
            cmd = [binp, "run", prop, "-tier", tier, "-seed", str(seed), "-shard", "%d/%d" % (i, n), "-out", out]
            cmd += ["-case-limit-s", str(CASE_LIMIT.get(prop, CASE_LIMIT["default"]) * (3 if variant != "plain" else 1))]
            if only:
                cmd += ["-only", only]
            elif variant != "plain":
                cmd += ["-subsample", str(SUBSAMPLE.get((prop, variant, tier), SUBSAMPLE.get((variant, tier), 1)))]
            env = dict(os.environ)
            env["VERIF_VARIANT"] = variant
            env["GOTRACEBACK"] = "all"
            if variant == "race":
                env["GORACE"] = "halt_on_error=0 log_path=%s.race" % out
            if variant == "cover":
                os.makedirs(out + ".covdir", exist_ok=True)
                env["GOCOVERDIR"] = out + ".covdir"
            if variant == "asan":
                env["ASAN_OPTIONS"] = "halt_on_error=1:abort_on_error=0:detect_leaks=0:log_path=%s.asan" % out
            procs.append({"variant": variant, "shard": i, "n": n, "out": out, "errf": errf, "cmd": cmd, "env": env})
    # run with bounded parallelism
    running, pending = [], list(procs)
    deadline = time.time() + WATCHDOG[tier]
    maxpar = NCPU
    while pending or running:
        while pending and len(running) < maxpar:
            p = pending.pop(0)
            p["fh"] = open(p["errf"], "w")
            p["proc"] = subprocess.Popen(p["cmd"], stdout=p["fh"], stderr=subprocess.STDOUT, env=p["env"], cwd=workdir)
            running.append(p)
        time.sleep(0.05)
        for p in list(running):
            rc = p["proc"].poll()
            if rc is not None:
                p["rc"] = rc
                p["fh"].close()
                running.remove(p)
        if time.time() > deadline:
            for p in running:
                p["proc"].send_signal(3)  # SIGQUIT: goroutine dump into the stderr file
            time.sleep(2)
            for p in running:
                p["proc"].kill()
                p["rc"] = "watchdog"
                p["fh"].close()
            for p in pending:
                p["rc"] = "not-started"
            running, pending = [], []
    results, fatals, incon, races = [], [], [], []
    hung_families = {}
    for p in procs:
        tail = ""
        try:
            with open(p["errf"], errors="replace") as f:
                tail = f.read()[-6000:]
        except OSError:
            pass
        # sanitizer logs
        for lf in glob.glob(p["out"] + ".race*") + glob.glob(p["out"] + ".asan*"):
            try:
                with open(lf, errors="replace") as f:
                    txt = f.read()
            except OSError:
                continue
            for blk in re.split(r"(?=WARNING: DATA RACE|ERROR: AddressSanitizer)", txt):
                if blk.startswith("WARNING: DATA RACE") or blk.startswith("ERROR: AddressSanitizer"):
                    races.append({"variant": p["variant"], "shard": p["shard"], "report": blk[:6000]})
        if os.path.exists(p["out"]) and p.get("rc") == 0:
            with open(p["out"]) as f:
                r = json.load(f)
            r["_variant"] = p["variant"]
            results.append(r)
            continue
        wal = ""
        try:
            with open(p["out"] + ".wal") as f:
                wal = f.read().strip()
        except OSError:
            pass
        m = re.search(r"^WATCHDOG (\S+) (\d+) ", tail_head(p["errf"]), re.M) if p.get("rc") == 4 else None
        if m and m.group(1) in hung_families:
            # the same family already reproduced a no-return in an isolated replay of another shard: not replayed again
            fatals.append({"variant": p["variant"], "shard": p["shard"], "n": p["n"], "rc": "no-return", "wal": "%s %s" % (m.group(1), m.group(2)),
                           "stderr_tail": "case did not return within the per-case limit; family %s already reproduced this in an isolated replay (%s)" % (m.group(1), hung_families[m.group(1)])})
            continue
        if m:
            # isolated replay of that single case with a larger budget; only a reproduced expiry is a verdict
            fam, idx = m.group(1), int(m.group(2))
            lim = CASE_LIMIT.get(prop, CASE_LIMIT["default"]) * 2
            cmd2 = [p["cmd"][0], "run", prop, "-tier", tier, "-seed", str(seed), "-shard", "0/1", "-only", "%s:%d" % (fam, idx),
                    "-case-limit-s", str(lim), "-out", p["out"] + ".replay"]
            try:
                r2 = subprocess.run(cmd2, stdout=subprocess.PIPE, stderr=subprocess.STDOUT, text=True, env=p["env"], cwd=workdir, timeout=lim + 60)
                rc2, out2 = r2.returncode, r2.stdout
            except subprocess.TimeoutExpired as e:
                rc2, out2 = 4, "WATCHDOG (runner timeout) " + str(e)
            if rc2 == 4:
                hung_families[fam] = "index %d" % idx
                fatals.append({"variant": p["variant"], "shard": p["shard"], "n": p["n"], "rc": "no-return", "wal": "%s %d" % (fam, idx),
                               "stderr_tail": "case did not return within %ds, reproduced in an isolated replay (%ds)\n%s" % (lim // 2, lim, out2[-4000:])})
            else:
                incon.append("case %s/%d exceeded the per-case limit once but returned in an isolated replay (load?)" % (fam, idx))
            continue
        if p.get("rc") in ("watchdog", "not-started"):
            incon.append("child %s shard %d/%d: %s (last case: %s)" % (p["variant"], p["shard"], p["n"], p["rc"], wal))
        elif p.get("rc") == 2 and "self-check FAILED" in tail:
            incon.append("reference self-check failed: " + tail[-500:])
        elif p.get("rc") == 64:
            incon.append("child usage error: " + tail[-500:])
        else:
            fatals.append({"variant": p["variant"], "shard": p["shard"], "n": p["n"], "rc": p.get("rc"), "wal": wal, "stderr_tail": tail})
    return results, fatals, incon, races


def tail_head(path):
    try:
        with open(path, errors="replace") as f:
            return f.read(20000)
    except OSError:
        return ""


def anchored_files(prop):
    import fnmatch
    pats = []
    try:
        with open(os.path.join(VERIF, "properties.jsonl")) as f:
            for line in f:
                rec = json.loads(line)
                if rec["id"] == prop:
                    pats = rec["anchors"]["files"]
    except OSError:
        pass
    return pats


def code_coverage(prop, workdir):
    """per-function statement coverage of the property's anchored files, from the cover child's GOCOVERDIR"""
    import fnmatch
    dirs = glob.glob(os.path.join(workdir, "*.covdir"))
    if not dirs:
        return None
    r = sh(["go", "tool", "covdata", "func", "-i=" + ",".join(dirs)], env=GOENV, cwd=HARNESS)
    if r.returncode != 0:
        return {"error": r.stdout[-300:]}
    pats = anchored_files(prop)
    funcs, reached, total = {}, 0, 0
    for line in r.stdout.splitlines():
        m = re.match(r"github\.com/free5gc/ike/(\S+?):(\d+):\s+(\S+)\s+([\d.]+)%", line)
        if not m:
            continue
        path, fn, pct = m.group(1), m.group(3), float(m.group(4))
        if not any(fnmatch.fnmatch(path, pt) for pt in pats):
            continue
        funcs["%s:%s" % (path, fn)] = pct
        total += 1
        reached += pct > 0
    return {"anchored_files": pats, "functions_in_anchored_files": total, "functions_reached": reached,
            "not_reached": sorted(k for k, v in funcs.items() if v == 0)[:60],
            "per_function_statement_pct": dict(sorted(funcs.items()))}


# native Go fuzzing (thorough tier only): the fuzzer is an input source, the monitor inside the fuzz function decides
FUZZ = {"C04": ("FuzzC04", 3000000), "C12": ("FuzzC12", 3000000)}


def run_fuzz(prop, workdir, replay_dir):
    """returns (stats dict, list of violation lines)"""
    target, execs = FUZZ[prop]
    execs = int(os.environ.get("VERIF_FUZZ_EXECS", execs))
    cmd = ["go", "test", "-tags", "verif", "-run", "^$", "-fuzz", "^%s$" % target, "-fuzztime", "%dx" % execs]
    altmod = os.path.join(workdir, "go.alt.mod")
    if os.environ.get("VERIF_REPO_OVERRIDE") and os.path.exists(altmod):
        cmd.append("-modfile=" + altmod)
    cmd.append("./fuzz")
    t0 = time.time()
    try:
        r = subprocess.run(cmd, cwd=HARNESS, env=GOENV, stdout=subprocess.PIPE, stderr=subprocess.STDOUT, text=True, timeout=3600)
        out, rc = r.stdout, r.returncode
    except subprocess.TimeoutExpired as e:
        out, rc = (e.stdout or b"").decode(errors="replace") if isinstance(e.stdout, bytes) else (e.stdout or ""), "timeout"
    stats = {"target": target, "requested_execs": execs, "wall_s": round(time.time() - t0, 1), "exit": rc,
             "note": "coverage-guided; schedule not seed-reproducible; corpus cached under GOCACHE/fuzz persists between runs"}
    m = re.findall(r"execs: (\d+) .*?new interesting: (\d+) \(total: (\d+)\)", out)
    if m:
        stats["execs"], stats["new_interesting"], stats["corpus_total"] = int(m[-1][0]), int(m[-1][1]), int(m[-1][2])
    lines = []
    tdir = os.path.join(HARNESS, "fuzz", "testdata")
    if rc not in (0, "timeout"):
        os.makedirs(replay_dir, exist_ok=True)
        path = os.path.join(replay_dir, "fuzz-%s-%d.txt" % (target, int(t0)))
        inputs = ""
        for fpath in glob.glob(os.path.join(tdir, "fuzz", target, "*")):
            with open(fpath, errors="replace") as fh:
                inputs += "--- %s\n%s\n" % (os.path.basename(fpath), fh.read()[:200000])
        with open(path, "w") as fh:
            fh.write("go test -fuzz %s failed (exit %s)\n\n%s\n\nfailing input(s) in Go fuzz corpus format:\n%s" % (target, rc, out[-8000:], inputs))
        cls = re.search(r"VIOLATION property=\S+ kind=(\S+) class=(.*?) detail=", out)
        lines.append("VIOLATION property=%s replay=%s kind=fuzz-%s class=%s" % (prop, path, cls.group(1) if cls else "crash", (cls.group(2) if cls else "see file")[:160]))
    elif rc == "timeout":
        stats["note"] += "; timed out (inconclusive)"
    shutil.rmtree(tdir, ignore_errors=True)  # crashers are kept in the replay file, not in the harness tree
    return stats, lines


def dedupe_reports(reports):
    seen, out = set(), []
    for r in reports:
        frames = re.findall(r"^\s+(github\.com/free5gc/ike[^\s(]*|verifharness[^\s(]*)", r["report"], re.M)
        key = "|".join(frames[:2] + frames[-2:]) if frames else r["report"][:200]
        if key in seen:
            continue
        seen.add(key)
        r["key"] = key
        out.append(r)
    return out


def match_known(v, known):
    for k in known:
        if k.get("property") != v.get("property") or k.get("status") != "known":
            continue
        if re.search(k["class_regex"], v.get("kind", "") + "|" + v.get("class", "")):
            return k
    return None


def main():
    args = sys.argv[1:]
    if args and args[0] == "--setup":
        ok = True
        for variant in ("plain", "race", "cover", "asan"):
            b, err = build(variant)
            if b is None:
                log(err)
                ok = ok and variant == "asan"  # asan is optional (thorough tier only)
        r = sh([os.path.join(BUILD, "vharness-plain"), "selfcheck"])
        print(r.stdout.strip())
        sys.exit(0 if ok and r.returncode == 0 else 1)
    if not args:
        print(__doc__)
        sys.exit(64)
    prop = args[0]
    tier = os.environ.get("VERIF_TIER", "quick")
    replay = None
    i = 1
    while i < len(args):
        if args[i] in ("quick", "thorough"):
            tier = args[i]
        elif args[i] == "--replay":
            replay = args[i + 1]
            i += 1
        i += 1
    if tier not in ("quick", "thorough"):
        tier = "quick"
    try:
        seed = int(os.environ.get("VERIF_SEED", "1"))
    except ValueError:
        seed = 1
    if prop not in PLAN:
        print("unknown property", prop)
        sys.exit(64)

    t0 = time.time()
    workdir = os.path.join(BUILD, "work", "%s-%s-%d-%d" % (prop, tier, seed, os.getpid()))
    shutil.rmtree(workdir, ignore_errors=True)
    os.makedirs(workdir)

    only = None
    if replay:
        with open(replay) as f:
            w = json.load(f)
        v = w["violation"]
        only = "%s:%d" % (v["family"], v["index"])
        seed, tier = int(v["seed"]), v["tier"]
        log("replaying %s case %s seed=%d tier=%s" % (prop, only, seed, tier))

    plan = PLAN[prop]
    if replay and w.get("variant"):
        plan = [p for p in plan if p[0] == w["variant"]] or plan[:1]
    results, fatals, incon, reports = run_children(prop, tier, seed, plan, workdir, only)
    if results is None:
        print("INCONCLUSIVE property=%s reason=%s" % (prop, incon[0].replace("\n", " | ")[:1500]))
        sys.exit(2)

    known = load_known()
    evals = 0
    sigs = set()
    samples, counters, families, notes, info = [], {}, {}, [], {}
    violations = []
    per_variant = {}
    for r in results:
        evals += r["evals"]
        sigs.update(int(x, 16) for x in (r.get("sigs") or []))
        for s in (r.get("samples") or []):
            if len(samples) < 8:
                samples.append(s)
        for k, v in (r.get("counters") or {}).items():
            counters[k] = counters.get(k, 0) + v
        for k, v in (r.get("families") or {}).items():
            families[k] = families.get(k, 0) + v
        for n in (r.get("notes") or []):
            if n not in notes and len(notes) < 40:
                notes.append(n)
        info.update(r.get("info") or {})
        incon += r.get("inconclusive") or []
        per_variant[r["_variant"]] = per_variant.get(r["_variant"], 0) + r["evals"]
        for v in (r.get("violations") or []):
            v["variant"] = r["_variant"]
            violations.append(v)

    reports = dedupe_reports(reports or [])

    replay_dir = os.path.join(OUT, "replay", prop)
    out_lines = []
    new_viol = 0
    known_hit = {}
    seen_classes = {}
    widx = 0
    for v in violations:
        k = match_known(v, known)
        if k is not None:
            known_hit.setdefault(k["id"], [k, 0])[1] += 1
            continue
        key = v["kind"] + "|" + v["class"]
        seen_classes[key] = seen_classes.get(key, 0) + 1
        if seen_classes[key] > 2:
            continue
        os.makedirs(replay_dir, exist_ok=True)
        path = os.path.join(replay_dir, "%s-s%d-%d.json" % (tier, seed, widx))
        widx += 1
        with open(path, "w") as f:
            json.dump({"violation": v, "variant": v.get("variant"),
                       "replay_cmd": "./check %s --replay %s" % (prop, path)}, f, indent=1)
        out_lines.append("VIOLATION property=%s replay=%s kind=%s class=%s" % (prop, path, v["kind"], v["class"][:200]))
        new_viol += 1
    for fct in fatals:
        os.makedirs(replay_dir, exist_ok=True)
        path = os.path.join(replay_dir, "%s-s%d-fatal-%s-%d.json" % (tier, seed, fct["variant"], fct["shard"]))
        fam, idx = "", 0
        m = re.match(r"(\S+)\s+(\d+)", fct.get("wal") or "")
        if m:
            fam, idx = m.group(1), int(m.group(2))
        with open(path, "w") as f:
            json.dump({"violation": {"property": prop, "family": fam, "index": idx, "seed": seed, "tier": tier,
                                     "kind": "fatal", "class": "process died (rc=%s)" % fct["rc"],
                                     "detail": fct["stderr_tail"]}, "variant": fct["variant"]}, f, indent=1)
        out_lines.append("VIOLATION property=%s replay=%s kind=fatal rc=%s last_case=%s/%d" % (prop, path, fct["rc"], fam, idx))
        new_viol += 1
    for rp in reports:
        os.makedirs(replay_dir, exist_ok=True)
        path = os.path.join(replay_dir, "%s-s%d-sanitizer-%d.json" % (tier, seed, widx))
        widx += 1
        with open(path, "w") as f:
            json.dump({"violation": {"property": prop, "family": "", "index": 0, "seed": seed, "tier": tier,
                                     "kind": "sanitizer", "class": rp["key"], "detail": rp["report"]},
                       "variant": rp["variant"]}, f, indent=1)
        out_lines.append("VIOLATION property=%s replay=%s kind=sanitizer-report" % (prop, path))
        new_viol += 1

    fuzz_stats = None
    if prop in FUZZ and not replay and (tier == "thorough" or os.environ.get("VERIF_FUZZ_EXECS")):
        fuzz_stats, flines = run_fuzz(prop, workdir, replay_dir)
        out_lines += flines
        new_viol += len(flines)

    for kid, (k, n) in known_hit.items():
        print("KNOWN-FINDING: property=%s %s (id=%s, %d witnesses this run)" % (prop, k["what"], kid, n))
    for k in known:
        if k.get("property") == prop and k.get("status") == "known" and k["id"] not in known_hit:
            print("KNOWN-FINDING: property=%s %s (id=%s, not re-observed in this run)" % (prop, k["what"], k["id"]))

    wall = time.time() - t0
    if replay:
        for l in out_lines:
            print(l)
        print("replay: %d violation(s) reproduced" % new_viol)
        shutil.rmtree(workdir, ignore_errors=True)
        sys.exit(1 if new_viol else 0)

    required = [x for x in info.pop("require", "").split("||") if x]
    if not new_viol and not replay:
        for key in required:
            if counters.get(key, 0) == 0:
                incon.append("required observation never made: " + key)
    rule = info.pop("rule", "see DESIGN.md section 4 for this property")
    assumptions = [a for a in info.pop("assumptions", "").split(" || ") if a]
    exhaustive = info.pop("exhaustive", "") == "true"
    cov = {
        "evaluations": int(evals),
        "distinct_nontrivial": len(sigs),
        "rule": rule,
        "samples": samples,
        "families_cases_run": families,
        "counters": dict(sorted(counters.items())),
        "evaluations_by_build_variant": per_variant,
        "sanitizer_reports": len(reports),
        "fatal_child_exits": len(fatals),
        "known_findings_matched": {k: n for k, (_, n) in known_hit.items()},
        "notes": notes,
        "info": info,
        "code_coverage_sample": code_coverage(prop, workdir),
        "native_fuzzing": fuzz_stats,
        "repo_tree_hash": tree_hash(os.environ.get("VERIF_REPO_OVERRIDE") or REPO),
        "harness_tree_hash": tree_hash(HARNESS),
    }
    if exhaustive:
        cov["exhaustive"] = True
    if incon:
        cov["inconclusive_reasons"] = incon[:20]
    ev = {"property_id": prop, "tier": tier, "seed": seed, "level": "exploration", "coverage": cov,
          "assumptions": assumptions, "wall_s": round(wall, 2), "violations": new_viol}
    os.makedirs(os.path.join(OUT, "evidence"), exist_ok=True)
    with open(os.path.join(OUT, "evidence", prop + ".json"), "w") as f:
        json.dump(ev, f, indent=1, sort_keys=False)
        f.write("\n")

    for l in out_lines:
        print(l)
    summary = "%s %s seed=%d: evaluations=%d distinct=%d violations=%d known=%d wall=%.1fs" % (
        prop, tier, seed, evals, len(sigs), new_viol, sum(n for _, n in known_hit.values()), wall)
    print(summary)
    shutil.rmtree(workdir, ignore_errors=True)
    if new_viol:
        sys.exit(1)
    if incon or evals == 0 or len(sigs) < 2:
        for r in (incon or ["nothing observed"])[:5]:
            print("INCONCLUSIVE property=%s reason=%s" % (prop, str(r).replace("\n", " | ")[:800]))
        sys.exit(2)
    sys.exit(0)


if __name__ == "__main__":
    main()
