#!/usr/bin/env python3
"""validate MANIFEST.json and evidence/*.json against the schemas (needs the tooling venv: python3-vt)."""
import glob, json, sys
import jsonschema
ok = True
def chk(path, schema):
    global ok
    try:
        jsonschema.validate(json.load(open(path)), json.load(open(schema)))
        print("valid  ", path)
    except Exception as e:
        ok = False
        print("INVALID", path, str(e)[:300])
chk("/verif/MANIFEST.json", "/root/.vp/MANIFEST.schema.json")
for p in sorted(glob.glob("/verif/evidence/*.json")):
    chk(p, "/root/.vp/EVIDENCE.schema.json")
sys.exit(0 if ok else 1)
