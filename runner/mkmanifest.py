#!/usr/bin/env python3
"""Regenerates /verif/MANIFEST.json from the table below (single source of the per-property texts)."""
import json
import os
import subprocess

VERIF = os.path.dirname(os.path.dirname(os.path.abspath(__file__)))

TB = ("Go 1.23.5 compiler/runtime; crypto/{aes,md5,sha1,sha256} primitives and math/big Mul/Mod; the reference "
      "implementations under /verif/harness/ref (self-checked against RFC 2202/4231, NIST SP 800-38A vectors at every start); "
      "sampling: a universal claim over an unbounded input space is only explored, not proved.")

# id: (built, technique, level text, design_ref, extra note)
P = {
    "C01": ("runtime monitor: protect with the library under one role, unprotect with a second key object under the opposite role, compare observed value with the abstract original; replaceable crypto/rand.Reader (real / deterministic / all-zero / all-FF)",
            "Every generated message x 9 suites x 2 roles x 2 header modes is sent through the real EncodeEncrypt/DecodeDecrypt pair and the observed fields are compared with the abstract original; no-key paths are compared with plain Encode/Decode. Exploration is the right level: the property is universal over messages, keys and random draws, which a monitor can only sample (boundary-biased).", "4/C01"),
    "C02": ("runtime monitor: exhaustive single-bit flips / prefixes / extensions / splices of genuine protected messages fed to DecodeDecrypt, with recording spies installed in IKESAKey.Encr_*/Integ_* checking the event trace (no Decrypt before a matching MAC)",
            "For each genuine protected message all single-bit flips and all proper prefixes are enumerated (exhaustive per message), plus sampled multi-octet edits, extensions, splices, foreign keys and reflection; the oracle demands an error (or plain-decode equivalence with an empty spy trace when octet 16 no longer says SK) and inspects the spy trace for the verify-before-decrypt order.", "4/C02"),
    "C03": ("runtime monitor: differential round trip value -> Encode -> Decode -> observe against an abstract value model, boundary-biased generators of the encodable domain",
            "Generated messages of the encodable domain (all 15 payload kinds, nested structures, boundary sizes such as 248..255-octet SPIs, attribute types >= 128, TLV attributes, KDF_INPUT >= 252) are encoded and decoded by the real code and every observable field is compared. Exploration level: the domain is unbounded.", "4/C03"),
    "C04": ("runtime monitor + sanitizers: panic/fatal capture around every decoding entry point, placement differential (same octets in 4 memory layouts must give the same outcome), loop-step bound through build-tagged progress hooks, exhaustive 8-bit size-field windows, structure-aware mutation; repeated under -race (checkptr) and, in thorough, -asan",
            "Every decoder entry point is driven with enumerated field windows (all values of 8-bit size fields x remaining lengths, boundary values of 16-bit lengths), mutated valid encodings and random strings; outcomes must be value-or-error, identical across placements and repetitions, with hooked loops bounded by 2*len+64 steps. Sanitizer builds watch the same workload.", "4/C04"),
    "C05": ("runtime monitor: two-way differential against an independent RFC 7296 encoder and strict parser (reserved-bit noise, critical flags on known payloads, transform interleavings)",
            "Library encodings are parsed by an independent strict parser (lengths = extents, chain, markers, counts, reserved zero) and compared field by field; reference datagrams using sender liberties are decoded by the library and compared. Exploration level with an independent oracle.", "4/C05"),
    "C06": ("runtime monitor: independent RFC 7296 3.14 peer (hand-built HMAC and CBC) unprotects library output and checks layout/lengths/padding; library unprotects reference messages for every legal pad length; cipher/MAC spies check which direction's objects were used",
            "Library-protected messages are verified, decrypted and strictly parsed by an independent peer holding the raw sender-direction keys; reference-built messages with every legal pad length and arbitrary pad octets must be accepted. Spy trace pins the direction-specific objects.", "4/C06"),
    "C07": ("runtime monitor: reference prf / prf+ key derivation compared with GenerateKeyForIKESA / NewIKESAKey outputs, probes of the ready-made PRF/MAC/cipher objects, two-party DH runs through the wire form of the proposal",
            "All 3x3x3 algorithm combinations x 2 groups with nonce/secret length classes (incl. HMAC keys longer than the block) are derived by the library and by a hand-built reference; objects are probed; initiator/responder pairs must agree and interoperate.", "4/C07"),
    "C08": ("runtime monitor: reference prf+ slices compared with GenerateKeyForChildSA for all PRF x ESP encr x integ(incl. none); history check: n-th derivation on a long-lived IKESAKey equals the derivation on a fresh copy",
            "Child SA keys for all negotiable combinations and nonce lengths 0..512 are compared with the reference; sequences of up to 100 derivations interleaved with protect/unprotect on one IKE SA object are compared with fresh objects.", "4/C08"),
    "C09": ("runtime monitor + fault injection: primes recomputed from the RFC 2409/3526 formulas, hand-written modexp oracle, fixed-length/leading-zero search, crypto/rand.Reader replaced by recording / deterministic / faulty readers (failure at every read index, short reads)",
            "Public values and shared secrets for boundary and random exponents/peers are compared with an independent modexp over formula-derived primes; exponent generation is observed through the replaceable random source, including injected failures at every read index (fault enumeration over read indices actually reached).", "4/C09"),
    "C10": ("runtime monitor + fault injection: textbook CBC oracle on Encrypt output, exhaustive Decrypt over lengths 0..96 x pad octet 0..255 crafted with the reference encryptor, IV freshness via recording/deterministic random source, reader failures at every read index, key sizes 0..64",
            "Encrypt/Decrypt inverse and size law for plaintext lengths 0..4096, exhaustive malformed-ciphertext window, IV distinctness across calls and objects, failure injection at each random read, interleaved histories on one object versus fresh objects.", "4/C10"),
    "C11": ("runtime monitor: exhaustive enumeration of all 65536 transform ids x attribute classes through each DecodeTransform function (directly and after SA payload wire round trip) against an algorithm table typed in from the RFCs",
            "The finite space ids x attribute classes x decode functions is enumerated (1/16 stratified slice in quick, complete in thorough); advertised algorithms must round-trip with RFC lengths, everything else must be 'unsupported' and SA construction must fail.", "4/C11"),
    "C12": ("runtime monitor: decode -> encode -> decode -> encode fixed-point check on mutated valid encodings and canonical reference datagrams (byte identity)",
            "Mutations aimed at information a decoder may drop, plus canonical reference datagrams, are pushed through Decode/Encode twice; the second decode must equal the first and the second encoding must equal the first; canonical datagrams must re-encode byte-identically. Same at EAP level.", "4/C12"),
    "C13": ("runtime monitor: reference encoder inserts unsupported payloads (exhaustive type codes x positions x flag x body lengths for single insertions); decode must equal the message without them, or fail if any is critical",
            "All unsupported type codes 1..32, 49..255 x positions x both flag values x body lengths are inserted into rotating base messages (exhaustive for single insertions), plus sampled multiple insertions; critical flag on implemented types must be ignored.", "4/C13"),
    "C14": ("runtime monitor: EAP round trip + independent strict RFC 3748/4187/5448 parser on Marshal output, setter size rules for all sizes 0..300, GetAttr value identity on set and decoded objects, repeated-Marshal byte identity",
            "All codes/identifiers, all method kinds, all 128 attribute subsets of EAP-AKA' with boundary value sizes; strict reference parse checks framing (length, padding zero, bit lengths); setter acceptance is compared with the stated size rules exhaustively over 0..300.", "4/C14"),
    "C15": ("runtime monitor: hand-built HMAC-SHA-256 over the wire octets with AT_MAC zeroed compared with CalcEapAkaPrimeAtMAC on built and decoded packets; exhaustive single-bit flips of packet and key must change acceptance; reference packets in permuted attribute orders",
            "Sender side: library MAC equals reference HMAC over the bytes Marshal emits; receiver side: decode then Calc equals the transmitted MAC for library-built and reference-built packets (any attribute order, non-zero reserved/padding); every single-bit flip of packet or key is rejected (exhaustive per packet).", "4/C15"),
    "C16": ("runtime monitor: reference PRF' (hand-built HMAC-SHA-256 iteration) compared with EapAkaPrimePRF over all (|IK'|,|CK'|) in 1..64 x 1..64 and arbitrary identities",
            "All 4096 key length pairs once (unequal lengths expose swapped concatenation) plus sampled identities 0..255 octets incl. NUL/0xFF/invalid UTF-8; empty keys must be refused.", "4/C16"),
    "C17": ("runtime monitor over operation histories: one long-lived IKESAKey versus a fresh object per step under a deterministic random stream (byte-for-byte equality), spy-trace specification per step (every MAC starts with Reset)",
            "Seeded histories up to 64 operations over {protect I/R, unprotect genuine, unprotect forged/truncated/garbage, derive child} on one key object; each step is compared with the same step on a freshly built object; all 25 operation bigrams must be observed.", "4/C17"),
    "C18": ("Go race detector over a multi-goroutine workload on independent objects (G up to 64, GOMAXPROCS 2..16, build-tagged yield hook to diversify schedules) + result-equals-sequential oracle on a recorded client-boundary history",
            "All operation kinds run concurrently on per-goroutine objects plus shared read-only input slices; zero race reports are required (counted from the log), every deterministic result must equal its precomputed sequential result, overlapping op-kind pairs and schedule fingerprints are reported.", "4/C18"),
    "C19": ("runtime monitor: builder post-conditions (exactly one element appended, fields equal arguments, earlier payloads unchanged) and reference TS 24.502 layouts for the 3GPP helpers; oversize arguments must error at build or encode time",
            "Every Build* function and NewHeader/NewMessage with boundary argument sizes (0..70000 where limits exist), all flag combinations, prior containers of 0..10 payloads; encoded 3GPP payloads compared with independently built layouts.", "4/C19"),
    "C20": ("runtime monitor: scribble checks (overwrite input / returned buffer, re-observe), reflection walk of decoded values flipping every reachable byte slice, mprotect-poisoned receive buffer (thorough), repeated-encode byte identity; -race/-asan passes",
            "Decoded and unprotected values are re-observed after the input buffer is overwritten under every placement; Encode purity and determinism; EncodeEncrypt side effects limited to the payload list and header bookkeeping; poisoned-buffer monitor faults on any later read of input memory.", "4/C20"),
}

BUILT = set(os.environ.get("VERIF_BUILT", "").split(",")) if os.environ.get("VERIF_BUILT") else None


def built_ids():
    # a property is claimed once its check is registered in the harness
    src = os.path.join(VERIF, "harness", "props")
    ids = set()
    for f in os.listdir(src):
        if f.endswith(".go"):
            txt = open(os.path.join(src, f)).read()
            import re
            ids.update(re.findall(r'core\.Register\("(C\d+)"', txt))
    return ids


def main():
    ids = built_ids()
    checks, na = [], []
    for pid in sorted(P):
        tech, text, ref = P[pid]
        if pid in ids:
            checks.append({
                "property_id": pid,
                "quick_cmd": "./check %s quick" % pid,
                "thorough_cmd": "./check %s thorough" % pid,
                "evidence_file": "/verif/evidence/%s.json" % pid,
                "replay_cmd_template": "./check %s --replay {path}" % pid,
                "engine": "vharness",
                "level_claimed": {"category": "exploration", "text": text, "design_ref": "DESIGN.md section " + ref},
                "level_note": TB,
                "technique": tech,
            })
        else:
            na.append({"property_id": pid, "reason": "check not built yet in this round (planned: DESIGN.md section %s); not claimed until it exists" % ref})
    hooks_commits = []
    try:
        out = subprocess.run(["git", "-C", "/repo", "log", "--format=%H %s"], stdout=subprocess.PIPE, text=True).stdout
        for line in out.splitlines():
            h, s = line.split(" ", 1)
            if s.startswith("verif hooks:") or s.startswith("hooks:"):
                hooks_commits.append(h)
    except Exception:
        pass
    m = {
        "version": 1,
        "setup_cmd": "./check --setup",
        "hooks": {
            "guard": "verif",
            "enable": "go build -tags verif (the harness module /verif/harness replaces github.com/free5gc/ike with /repo and is always built with -tags verif)",
            "baseline_off_cmd": "cd /repo && GOFLAGS=-mod=mod GOPROXY=off GOSUMDB=off GOTOOLCHAIN=local go test -vet=off -count=1 -json ./...",
            "source_commits": hooks_commits,
            "add_only": True,
        },
        "engines": [{
            "name": "vharness",
            "path": "/verif/harness",
            "serves_properties": sorted(ids),
            "kind_free_text": "Go child-process harness (runtime monitors, reference oracles, spies, random-source shim, race/asan builds) orchestrated by /verif/runner/check.py",
        }],
        "checks": checks,
        "notes": "Technique family: runtime monitoring and sanitizers. Exit 0 held / 1 VIOLATION / 2 INCONCLUSIVE. VERIF_SEED selects the PRNG sub-streams; case lists are fixed-size per tier (no time budgets). Known/fixed genuine defects: /verif/known_findings.json.",
        "not_applicable": na,
    }
    with open(os.path.join(VERIF, "MANIFEST.json"), "w") as f:
        json.dump(m, f, indent=1)
        f.write("\n")
    print("claimed:", ",".join(sorted(ids)), "| not yet:", ",".join(x["property_id"] for x in na))


if __name__ == "__main__":
    main()
